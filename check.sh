#!/bin/bash
# check.sh <property-id> <quick|thorough>   run one registered check
# check.sh <property-id> --replay <file>    re-execute a replay file
# check.sh --build-only                     build both workers and the driver (setup)
#
# Rebuilds the harness against /repo's CURRENT working tree (hooks on) every
# time.  Exit 0 = held; 1 = VIOLATION line printed; 2 = harness/build trouble.
set -u
VERIF=$(cd "$(dirname "$0")" && pwd)
REPO=${VERIF_REPO:-/repo}
export GOFLAGS=-mod=mod GOPROXY=off GOSUMDB=off GOTOOLCHAIN=local GONOSUMDB='*' GONOSUMCHECK=1 GOFLAGS=-mod=mod
export GOCACHE=${GOCACHE:-$VERIF/.cache/go-build}
export CGO_ENABLED=1
# VERIF_OUT (testing only): where binaries, scratch, evidence and replays go
OUT=${VERIF_OUT:-$VERIF}
mkdir -p "$OUT/.tmp" "$OUT/.bin" "$OUT/evidence" "$OUT/replays"

id=${1:-}
mode=${2:-quick}
[ -n "${VERIF_TIER:-}" ] && [ "$mode" != "--replay" ] && [ $# -lt 2 ] && mode=$VERIF_TIER
bindir="$OUT/.bin/${id:-setup}"
[ "$id" = "--build-only" ] && bindir="$OUT/.bin/setup"
mkdir -p "$bindir"

build() {
  # 1. a scratch copy of the tree under test in which cmd/astyield puts scheduling points in front of
  #    synchronisation operations that have no hand-placed hook (sites a change under test may have added);
  #    /repo itself is never modified.  If the instrumented copy does not build, the tree is used as it is.
  local src="$bindir/src" target="$REPO"
  rm -rf "$src"; mkdir -p "$src"
  ( cd "$VERIF/sim" && go build -o "$bindir/astyield" ./cmd/astyield ) || return 1
  AUTOPOINTS=-1
  if rsync -a --exclude .git --exclude testdata --exclude bamboo-specs "$REPO/" "$src/" &&
     ay=$("$bindir/astyield" "$src" 2>&1) &&
     ( cd "$src" && go build -tags verif . ./filterlist ./lookup ./rules ./filterutil ) >/dev/null 2>&1; then
    target="$src"
    AUTOPOINTS=$(echo "$ay" | sed -n 's/^astyield: \([0-9]*\) scheduling points inserted$/\1/p')
  else
    echo "note: automatic scheduling points not used (instrumented copy did not build); using hand-placed hooks only" >&2
    rm -rf "$src"
  fi
  echo "$AUTOPOINTS" > "$bindir/autopoints"
  # 2. the harness module resolves the library through a modfile whose replace directive points at that tree
  local mf="$bindir/go.mod"
  sed "s#=> /repo#=> $target#" "$VERIF/sim/go.mod" > "$mf"
  cp "$REPO/go.sum" "$bindir/go.sum"
  ( cd "$VERIF/sim" &&
    go build -modfile="$mf" -tags verif -o "$bindir/simworker" ./cmd/simworker &&
    go build -modfile="$mf" -tags verif -race -o "$bindir/simworker-race" ./cmd/simworker &&
    go build -modfile="$mf" -tags verif -o "$bindir/simdriver" ./cmd/simdriver ) 2>&1
}

if ! out=$(build); then
  echo "HARNESS-TROUBLE: build failed"
  echo "$out" | tail -40
  exit 2
fi
[ "$id" = "--build-only" ] && exit 0

case "$id" in
  C11|C13|C14|C19) ;;
  *) echo "usage: $0 <C11|C13|C14|C19> <quick|thorough> | <id> --replay <file> | --build-only"; exit 2;;
esac

# identity of the harness sources: a replay script answers the generators' draws, so it is only meaningful for
# the harness that wrote it
VERIF_HARNESS=$(cd "$VERIF/sim" && find . -name '*.go' -o -name 'go.mod' -o -name '*.s' | LC_ALL=C sort | xargs cat | sha256sum | cut -c1-16)
export VERIF_HARNESS

if [ "$mode" = "--replay" ]; then
  file=${3:?replay file}
  rh=$(python3 -c "import json,sys; print(json.load(open(sys.argv[1])).get('harness') or '')" "$file")
  if [ "$rh" != "$VERIF_HARNESS" ]; then
    echo "note: $file was written by harness '${rh:-unknown}', this is harness '$VERIF_HARNESS': if the generators changed in between, the script means a different run and a replay that comes out clean says nothing about the tree" >&2
  fi
  runlist=$(python3 -c "import json,sys; print(','.join(str(x) for x in json.load(open(sys.argv[1])).get('run_list') or []))" "$file")
  if [ -n "$runlist" ]; then
    # the violation depends on the history of the process: execute the recorded list of runs in one fresh process
    read -r seed gate lock procs race want wantrun < <(python3 -c "import json,sys; d=json.load(open(sys.argv[1])); print(d['batch_seed'], d['gate'], d['lock'], d.get('gomaxprocs') or 1, 1 if d.get('race_build') else 0, d['violation_class'].replace(' ','_'), d['run_index'])" "$file")
    w="$bindir/simworker"; extra=()
    if [ "$race" = 1 ]; then w="$bindir/simworker-race"; lp="$OUT/.tmp/replay-race-$$"; export GORACE="halt_on_error=0 log_path=$lp"; extra=(-racelog "$lp"); fi
    out=$("$w" -prop "$id" -seed "$seed" -gate "$gate" -lock "$lock" -procs "$procs" -runlist "$runlist" -samples 0 -dir "$OUT/.tmp" "${extra[@]}"); rc=$?
    rm -f "$OUT"/.tmp/replay-race-$$.*
    [ $rc -ne 0 ] && { echo "HARNESS-TROUBLE: replay worker exit $rc"; exit 2; }
    got=$(printf '%s' "$out" | python3 -c "import json,sys; v=json.load(sys.stdin).get('violation'); print((v['violation_class'].replace(' ','_')+' '+str(v['run_index'])) if v else 'none -1')")
    echo "replayed runs [$runlist] in one process: got '$got', recorded '$want $wantrun'"
    set -- $got
    if [ "$1" != none ]; then echo "VIOLATION property=$id replay=$file"; exit 1; fi
    echo "OK: the replay file no longer violates $id on this tree"; exit 0
  fi
  race=$(python3 -c "import json,sys; print(1 if json.load(open(sys.argv[1])).get('race_build') else 0)" "$file")
  w="$bindir/simworker"; extra=()
  if [ "$race" = 1 ]; then
    w="$bindir/simworker-race"
    lp="$OUT/.tmp/replay-race-$$"
    export GORACE="halt_on_error=0 log_path=$lp"
    extra=(-racelog "$lp")
  fi
  want=$(python3 -c "import json,sys; print(json.load(open(sys.argv[1]))['violation_class'])" "$file")
  # a file marked "reproduces in some executions only" (the tree it was found on is nondeterministic by itself)
  # is executed up to ten times
  tries=1; [ "$(python3 -c "import json,sys; print(1 if json.load(open(sys.argv[1])).get('reproduces_in_some_executions_only') else 0)" "$file")" = 1 ] && tries=10
  for t in $(seq 1 $tries); do
    out=$("$w" -replay "$file" -dir "$OUT/.tmp" "${extra[@]}"); rc=$?
    rm -f "$OUT"/.tmp/replay-race-$$.*
    [ $rc -ne 0 ] && { echo "HARNESS-TROUBLE: replay worker exit $rc"; exit 2; }
    class=$(printf '%s' "$out" | python3 -c "import json,sys; d=json.load(sys.stdin); print(d['class']); sys.stderr.write(d['detail'][:4000]+'\n')")
    [ -n "$class" ] && break
  done
  echo "replayed class: '${class}'  recorded class: '${want}'"
  if [ -n "$class" ] && { [ "$class" = "$want" ] || { [ "${class#race:}" != "$class" ] && [ "${want#race:}" != "$want" ]; }; }; then
    echo "VIOLATION property=$id replay=$file"
    exit 1
  fi
  [ -z "$class" ] && { echo "OK: the replay file no longer violates $id on this tree"; exit 0; }
  echo "VIOLATION property=$id replay=$file"
  exit 1
fi

seed=${VERIF_SEED:-20260926}
"$bindir/simdriver" -prop "$id" -tier "$mode" -seed "$seed" -verif "$VERIF" -out "$OUT" -bin "$bindir" -autopoints "$(cat "$bindir/autopoints" 2>/dev/null || echo -1)" ${VERIF_SCALE:+-scale "$VERIF_SCALE"}
rc=$?
exit $rc
