package props

import (
	"fmt"
	"io"
	"reflect"
	"strings"

	"github.com/AdguardTeam/urlfilter/filterlist"
	"github.com/AdguardTeam/urlfilter/rules"

	"verifsim/core"
	"verifsim/disk"
	"verifsim/workload"
)

func init() { Registry["C11"] = RunC11 }

// refRule is one element of the reference parse.
type refRule struct {
	typ    string
	text   string
	id     int
	offset int
	raw    string // the raw line without its '\n'
}

// referenceParse is the specification of scanning: split on LF, offsets by
// prefix sum including the newline, the repository's own rules.NewRule per
// line, drop nil/error results and, if ignoreCosmetic, cosmetic rules.
func referenceParse(content string, id int, ignoreCosmetic bool) (out []refRule) {
	off := 0
	for off < len(content) {
		end := strings.IndexByte(content[off:], '\n')
		var line string
		next := 0
		if end < 0 {
			line, next = content[off:], len(content)
		} else {
			line, next = content[off:off+end], off+end+1
		}
		r, err := rules.NewRule(line, id)
		if r != nil && err == nil {
			if _, cos := r.(*rules.CosmeticRule); !(cos && ignoreCosmetic) {
				out = append(out, refRule{typ: reflect.TypeOf(r).String(), text: r.Text(), id: r.GetFilterListID(), offset: off, raw: line})
			}
		}
		off = next
	}
	return out
}

var utf8Lines = []string{"||пример.рф^", "! комментарий про рекламу", "example.org##.реклама", "||例え.jp^$important", "1.2.3.4 bücher.example", "# ümlaut"}

// genContent draws a list content from line classes.
func genContent(ch *core.Chooser, hosts []string, bufHint int, maxLines int) string {
	var b strings.Builder
	pct := []int{70, 90, 96}[ch.Intn("content.pct", 3)]
	crlfMode := ch.Intn("content.crlf", 3) // 0 LF, 1 CRLF, 2 mixed
	n := 0
	for i := 0; i < maxLines; i++ {
		if i == 0 {
			ch.Begin("cline")
		} else if !ch.More("cline", pct) {
			break
		}
		var line string
		switch c := ch.Intn("content.class", 20); {
		case c <= 6:
			line = workload.GenRule(ch, workload.AllKinds[ch.Intn("list.kind", len(workload.AllKinds))], hosts, nil)
		case c == 7:
			// blanks around a rule of ANY kind (a cosmetic or hosts line
			// that is indented is still that kind of rule)
			k := []int{workload.KBlock, workload.KCosmetic, workload.KCosmetic, workload.KCosmeticException, workload.KHostV4, workload.KBareDomain, workload.KComment}[ch.Intn("content.leadkind", 7)]
			line = []string{" ", "\t", "  \t "}[ch.Intn("content.lead", 3)] + workload.GenRule(ch, k, hosts, nil) + []string{" ", "\t\t", " \t"}[ch.Intn("content.trail", 3)]
		case c == 8:
			line = utf8Lines[ch.Intn("content.utf8", len(utf8Lines))]
		case c == 9:
			line = "||exa\x00mple.org^"
		case c == 10 || c == 11:
			// longer than the read buffer: 1..3x the knob, or 4097..9000
			// bytes for the default 4 KiB buffer
			var ln int
			b0 := 4096
			if bufHint > 0 && bufHint < 4096 {
				b0 = bufHint
			}
			switch m := ch.Intn("content.longmode", 8); {
			case m <= 3:
				// the line (with its prefix/suffix and newline) straddles a
				// multiple of the buffer size by -2..+2 bytes
				ln = b0*(1+ch.Intn("content.longmult", 3)) - 20 + ch.Intn("content.longdelta", 24)
				if ln < 1 {
					ln = 1
				}
			case m == 4 && b0 == 4096 && ch.Intn("content.huge", 8) == 7:
				// longer than 64 KiB: the limit of a default bufio.Scanner
				ln = 65536 + ch.Intn("content.longlen", 9000)
			case b0 < 4096:
				ln = b0 + ch.Intn("content.longlen", 2*b0+2)
			default:
				ln = 4097 + ch.Intn("content.longlen", 4904)
			}
			switch ch.Intn("content.longkind", 4) {
			case 0:
				line = "||" + strings.Repeat("a", ln) + ".example.org^"
			case 1:
				line = "! " + strings.Repeat("c", ln)
			case 2:
				line = "example.org##." + strings.Repeat("s", ln)
			default:
				line = "||ads.example.org/" + strings.Repeat("p", ln) + "$important"
			}
		case c == 12:
			line = []string{"", "   ", "\t"}[ch.Intn("rule.blank", 3)]
		case c == 13:
			line = workload.GenRule(ch, workload.KInvalid, hosts, nil)
		case c == 14:
			// stray carriage returns: trailing, leading, or in the middle of
			// a line (only LF ends a line)
			r := workload.GenRule(ch, workload.KHostV4, hosts, nil)
			switch ch.Intn("content.cr", 4) {
			case 0:
				line = r + "\r"
			case 1:
				line = "\r" + r
			case 2:
				line = r + "\r" + hosts[0]
			default:
				line = "||" + hosts[0] + "^\r$important"
			}
		case c == 15:
			// white space that strings.TrimSpace removes but ' '/'\t'
			// trimming does not, and bytes that are not valid UTF-8
			r := workload.GenRule(ch, workload.KBlock, hosts, nil)
			ws := []string{"\f", "\v", "\u00a0", "\u2003", "\u0085", "\xff\xfe", "\x00", "\r\r"}
			w := ws[ch.Intn("content.ws", len(ws))]
			switch ch.Intn("content.wspos", 3) {
			case 0:
				line = r + w
			case 1:
				line = w + r
			default:
				line = w
			}
		case c == 16:
			// lines whose KIND is easy to get wrong
			line = []string{hosts[0] + " #c", hosts[0] + " # c", "1.2.3.4", "::1 localhost # x", hosts[0] + "##", "#@#.x", "$$script", "||", "|", "*$image", "0.0.0.0 " + hosts[0] + " ## phishing", hosts[0] + "#comment", "! ||" + hosts[0] + "^", "#||" + hosts[0] + "^", "# " + hosts[0], "\r",
				"0.0.0.0 " + hosts[0] + " # also see " + hosts[0] + "##.banner", "||" + hosts[0] + "/page#top##x", "/ads\\.js$/$$script", "||" + hosts[0] + "^$important#@#x",
				"||" + hosts[0] + "/a#b#?#c", hosts[0] + " #%#x"}[ch.Intn("content.ambig", 22)]
		case c == 17:
			// two consecutive single-name lines that are equal under Unicode
			// case folding but not as domain names (U+017F folds to s,
			// U+212A to k): what a line is must not depend on its neighbour
			h := hosts[ch.Intn("content.foldhost", len(hosts))]
			tw := h
			if i := strings.IndexAny(h, "sk"); i >= 0 {
				tw = h[:i] + map[byte]string{'s': "\u017f", 'k': "\u212a"}[h[i]] + h[i+1:]
			} else {
				tw = strings.ToUpper(h)
			}
			pre := []string{"", "0.0.0.0 ", "||"}[ch.Intn("content.foldform", 3)]
			suf := ""
			if pre == "||" {
				suf = "^"
			}
			if ch.Intn("content.foldorder", 2) == 0 {
				line = pre + h + suf + "\n" + pre + tw + suf
			} else {
				line = pre + tw + suf + "\n" + pre + h + suf
			}
		default:
			line = workload.GenRule(ch, workload.KCosmetic, hosts, nil)
		}
		b.WriteString(line)
		nl := "\n"
		if crlfMode == 1 || (crlfMode == 2 && ch.Intn("content.eol", 2) == 1) {
			nl = "\r\n"
		}
		b.WriteString(nl)
		n++
		ch.End()
	}
	s := b.String()
	if ch.Intn("content.bom", 12) == 11 {
		s = "\ufeff" + s
	}
	if ch.Intn("content.finalnl", 2) == 1 {
		// no final newline
		s = strings.TrimSuffix(strings.TrimSuffix(s, "\n"), "\r")
	}
	return s
}

func ruleSig(r rules.Rule) string {
	return fmt.Sprintf("%s|%s|%d", reflect.TypeOf(r).String(), r.Text(), r.GetFilterListID())
}

func refSig(r refRule) string { return fmt.Sprintf("%s|%s|%d", r.typ, r.text, r.id) }

// RunC11 is one simulated I/O run for C11.
func RunC11(ch *core.Chooser, env *Env) *Outcome {
	out := newOutcome()
	hosts := workload.PickHosts(ch)
	maxLines := 40
	if env.Thorough {
		maxLines = 120
	}
	knob := []int{1, 2, 3, 7, 64, 4096}[ch.Intn("c11.knob", 6)]
	var lists []disk.ListPlan
	var ids []int
	for i := 0; i < 4; i++ {
		if i == 0 {
			ch.Begin("list")
		} else if !ch.More("list", 50) {
			break
		}
		id := listIDPool[ch.Intn("list.id", len(listIDPool))]
		for dup := true; dup; {
			dup = false
			for _, x := range ids {
				if x == id {
					dup = true
					id = listIDPool[(indexOfInt(listIDPool, id)+1)%len(listIDPool)]
				}
			}
		}
		ids = append(ids, id)
		lists = append(lists, disk.ListPlan{ID: id, Text: genContent(ch, hosts, knob, maxLines), IgnoreCosmetic: ch.Intn("list.igncos", 3) == 2})
		ch.End()
	}
	// now and then a list of a few hundred ordinary lines (8-25 KiB): several
	// refills of the scanner's buffer while the engines are being built, host
	// names that occur in many lines, and more engine questions than usual
	medium := ch.Intn("c11.medium", 12) == 11
	if medium {
		ml := workload.GenList(ch, workload.DNSKinds, hosts, 250, 600, 99)
		sep := ""
		if lists[0].Text != "" && !strings.HasSuffix(lists[0].Text, "\n") {
			sep = "\n"
		}
		lists[0].Text += sep + strings.Join(ml, "\n") + "\n"
		out.Probes["runs_with_a_list_of_hundreds_of_lines"]++
	}
	// rarely: tens of thousands of short lines, so that offsets pass 64 KiB
	// and 1 MiB (only a sample of the indexes is retrieved then)
	many := ch.Intn("c11.many", 400) == 399
	if many {
		nl := 18000 + ch.Intn("c11.manyn", 30000)
		if knob < 64 {
			knob = 64
		}
		var b strings.Builder
		b.WriteString(lists[0].Text)
		if !strings.HasSuffix(lists[0].Text, "\n") && lists[0].Text != "" {
			b.WriteString("\n")
		}
		for i := 0; i < nl; i++ {
			fmt.Fprintf(&b, "||m%d.example.org^\n", i)
		}
		b.WriteString(lists[0].Text)
		lists[0].Text = b.String()
		out.Probes["runs_with_offsets_beyond_1MiB"]++
	}
	// rarely: one line of more than 1 MiB between ordinary ones (a rule, a
	// comment or a hosts line with very many names)
	giant := !many && ch.Intn("c11.giant", 250) == 249
	if giant {
		// (readLine appends block by block and copies what it has so far
		// every time: quadratic in line length over buffer size, so only the
		// 4 KiB buffer is used here)
		knob = 4096
		n := 1<<20 + 1 + ch.Intn("c11.giantn", 200000)
		var g string
		switch ch.Intn("c11.giantkind", 3) {
		case 0:
			// (not a network rule: the shortcuts table indexes every 5-byte
			// window of a pattern, three engines per backing)
			var b strings.Builder
			b.WriteString("0.0.0.0")
			for i := 0; b.Len() < n; i++ {
				fmt.Fprintf(&b, " g%d.%s", i, hosts[0])
			}
			g = b.String()
		case 1:
			g = "! " + strings.Repeat("c", n)
		default:
			g = hosts[0] + "##." + strings.Repeat("s", n)
		}
		t := lists[0].Text
		cut := 0
		if i := strings.IndexByte(t, '\n'); i >= 0 {
			cut = i + 1
		}
		tail := t[cut:]
		if tail != "" && !strings.HasSuffix(tail, "\n") && ch.Intn("c11.giantlast", 2) == 0 {
			tail += "\n"
		}
		lists[0].Text = t[:cut] + g + "\n" + "||after-the-giant.example.org^\n" + tail
		out.Probes["runs_with_a_line_beyond_1MiB"]++
	}
	// now and then two lists whose ids and lines run into each other when
	// written next to each other without a separator: id 1 with "10.0.0.1 h"
	// against id 11 with "0.0.0.1 h", id 1 with "0.0.0.0 h1" against id 11
	// with "0.0.0.0 h" (a memo keyed by a careless concatenation of id and
	// text confuses them)
	if ch.Intn("c11.idglue", 16) == 15 {
		a := 1 + ch.Intn("c11.idglue.a", 2)
		b := a*10 + a
		for i := range lists {
			if lists[i].ID == a || lists[i].ID == b {
				lists[i].ID = 900 + i
			}
		}
		if len(lists) < 2 {
			lists = append(lists, disk.ListPlan{})
		}
		lists[0].ID, lists[1].ID = a, b
		h := hosts[ch.Intn("c11.idglue.h", len(hosts))]
		nl := func(t string) string {
			if t != "" && !strings.HasSuffix(t, "\n") {
				return t + "\n"
			}
			return t
		}
		lists[0].Text = nl(lists[0].Text) + fmt.Sprintf("%d0.0.0.1 %s\n0.0.0.0 %s%d\n", a, h, h, a)
		lists[1].Text = nl(lists[1].Text) + fmt.Sprintf("0.0.0.1 %s\n0.0.0.0 %s\n", h, h)
		out.Probes["storages_with_ids_and_lines_that_glue_ambiguously"]++
	}
	// sometimes two lists (distinct ids) are file lists over ONE path
	if len(lists) < 4 && ch.Intn("c11.twin", 6) == 5 {
		tw := lists[0]
		tw.ID = listIDPool[(indexOfInt(listIDPool, lists[0].ID)+5)%len(listIDPool)]
		for dup := true; dup; {
			dup = false
			for _, l := range lists {
				if l.ID == tw.ID {
					dup = true
					tw.ID = listIDPool[(indexOfInt(listIDPool, tw.ID)+1)%len(listIDPool)]
				}
			}
		}
		lists[0].ShareKey, tw.ShareKey = "twin", "twin"
		lists = append(lists, tw)
		out.Probes["storages_with_two_lists_on_one_file"]++
	}
	fail := func(class, detail string) *Outcome {
		out.Violation = &Violation{Class: class, Detail: detail}
		if env.KeepTrace {
			out.Sample = map[string]any{"lists": renderListsShort(lists), "knob_buffer": knob}
		}
		return out
	}

	var refs [][]refRule
	total := 0
	for _, l := range lists {
		r := referenceParse(l.Text, l.ID, l.IgnoreCosmetic)
		refs = append(refs, r)
		total += len(r)
	}
	h := uint64(0)
	longLines := 0
	for _, l := range lists {
		h = fnv(h, l.Text)
		for _, ln := range strings.Split(l.Text, "\n") {
			if len(ln) >= knob {
				longLines++
			}
		}
	}

	// (a) the stream reader under a seeded read-size schedule
	splitCRLF, splitUTF8, reads := 0, 0, 0
	for li, l := range lists {
		maxChunk := []int{1, 2, 3, 5, 16, 100, 4096, 8192}[ch.Intn("chunk.max", 8)]
		if (many || giant) && maxChunk < 4096 {
			maxChunk = 4096
		}
		cr := &disk.ChunkReader{Data: []byte(l.Text), Max: maxChunk, Ch: ch}
		var sc *filterlist.RuleScanner
		var got []refRule
		if perr := safely(func() {
			sc = filterlist.NewRuleScanner(cr, l.ID, l.IgnoreCosmetic)
			for sc.Scan() {
				r, idx := sc.Rule()
				got = append(got, refRule{typ: reflect.TypeOf(r).String(), text: r.Text(), id: r.GetFilterListID(), offset: idx})
			}
		}); perr != "" {
			return fail("panic:scan", perr)
		}
		splitCRLF += cr.SplitCRLF
		splitUTF8 += cr.SplitUTF8
		reads += cr.Reads
		if m := cmpSeq(got, refs[li]); m != "" {
			return fail("scan-differs:chunked", fmt.Sprintf("list #%d (id %d) scanned through a reader returning 1..%d bytes per Read\n%s", li, l.ID, maxChunk, m))
		}
	}

	// (b) every backing configuration: in-memory, file with the library's
	// default buffer, file with the knob-sized buffer, and a Chooser mix
	configs := []struct {
		name string
		mk   func(i int) (file bool, buf int)
	}{
		{"string", func(int) (bool, int) { return false, 0 }},
		{"file-default", func(int) (bool, int) { return true, 0 }},
		{"file-knob", func(int) (bool, int) { return true, knob }},
	}
	mixBits := ch.Intn("c11.mix", 1<<uint(len(lists)))
	configs = append(configs, struct {
		name string
		mk   func(i int) (file bool, buf int)
	}{"mixed", func(i int) (bool, int) {
		if mixBits>>uint(i)&1 == 1 {
			return true, knob
		}
		return false, 0
	}})

	// retrieval order: a Chooser permutation of all yielded indices
	type want struct {
		idx int64
		li  int
		r   refRule
	}
	// The index of a rule is whatever the storage scanner reports with it: the
	// property promises that it leads back to the rule, that it is the same
	// for every backing and that no two rules share one - not how it is
	// packed.  wants[k].idx is filled in by the first storage scan.
	var wants []want
	for li, rs := range refs {
		for _, r := range rs {
			wants = append(wants, want{0, li, r})
		}
	}
	idxKnown := false
	perm := make([]int, len(wants))
	for i := range perm {
		perm[i] = i
	}
	for i := len(perm) - 1; i > 0; i-- {
		j := ch.Intn("retr.perm", i+1)
		perm[i], perm[j] = perm[j], perm[i]
	}
	if many && len(perm) > 2500 {
		// a sample, plus the tail of the last list (largest offsets)
		perm = perm[:2000]
		for i := len(wants) - 60; i < len(wants); i++ {
			perm = append(perm, i)
		}
	}

	abandonAfter := -1
	if ch.Intn("c11.abandon", 3) == 2 {
		abandonAfter = ch.Intn("c11.abandonat", 4)
		out.Probes["abandoned_scans"]++
	}
	opKinds := []int{workload.OpDNS, workload.OpDNS, workload.OpWeb, workload.OpMatchAll, workload.OpMatch, workload.OpCosmetic}
	var reqs []workload.Op
	nreq := 8
	if medium {
		nreq = 40
	}
	for i := 0; i < nreq; i++ {
		reqs = append(reqs, workload.GenOpFor(ch, hosts, opKinds, planLines(lists)))
	}
	var engineAnswers [][]string

	for _, cfg := range configs {
		plans := make([]disk.ListPlan, len(lists))
		for i, l := range lists {
			plans[i] = l
			plans[i].File, plans[i].BufSize = cfg.mk(i)
		}
		b, err := disk.Build(plans, env.Dir, false)
		if err != nil {
			out.Invalid, out.InvalidReason = true, "build: "+err.Error()
			return out
		}
		var v *Outcome
		perr := safely(func() {
			// storage scan == reference, with reference-computed indices;
			// scanned twice: engines scan a storage several times, and a
			// file-backed list has to rewind
			// a scan that is abandoned half-way must not disturb the next
			if abandonAfter >= 0 {
				ab := b.Storage.NewRuleStorageScanner()
				for j := 0; j <= abandonAfter && ab.Scan(); j++ {
				}
			}
			for scanNo := 0; scanNo < 2 && v == nil; scanNo++ {
				sc := b.Storage.NewRuleStorageScanner()
				k := 0
				for sc.Scan() {
					r, idx := sc.Rule()
					if k >= len(wants) {
						v = fail("scan-differs:"+cfg.name, fmt.Sprintf("the storage scanner yields more than the %d reference rules; extra: %s at index %d", len(wants), ruleSig(r), idx))
						return
					}
					w := wants[k]
					if ruleSig(r) != refSig(w.r) {
						v = fail("scan-differs:"+cfg.name, fmt.Sprintf("rule #%d of the storage scan\n got:  %s index %d\n want: %s (list %d offset %d)", k, ruleSig(r), idx, refSig(w.r), w.r.id, w.r.offset))
						return
					}
					if !idxKnown {
						wants[k].idx = idx
					} else if idx != w.idx {
						v = fail("scan-differs:"+cfg.name, fmt.Sprintf("rule #%d %s is reported with index %d by this scan and with index %d by the first scan (in-memory backing)", k, refSig(w.r), idx, w.idx))
						return
					}
					k++
				}
				if k != len(wants) {
					v = fail("scan-differs:"+cfg.name, fmt.Sprintf("scan #%d of the storage stops after %d of %d reference rules; next expected: %s", scanNo+1, k, len(wants), refSig(wants[k].r)))
					return
				}
				if !idxKnown {
					idxKnown = true
					seen := map[int64]int{}
					for k2, w := range wants {
						if prev, dup := seen[w.idx]; dup {
							v = fail("index-not-injective", fmt.Sprintf("index %d is reported both for %s (list %d offset %d) and for %s (list %d offset %d)", w.idx, refSig(wants[prev].r), wants[prev].r.id, wants[prev].r.offset, refSig(w.r), w.r.id, w.r.offset))
							return
						}
						seen[w.idx] = k2
					}
				}
			}
			// retrieval in permuted order, three times (cold, then cached
			// twice), through the storage and directly through the list
			for pass := 0; pass < 3; pass++ {
				for _, pi := range perm {
					w := wants[pi]
					r, err := b.Storage.RetrieveRule(w.idx)
					if err != nil || r == nil {
						v = fail("retrieve-fails:"+cfg.name, fmt.Sprintf("RetrieveRule(%d) for %s (list %d offset %d, pass %d): rule=%v err=%v", w.idx, refSig(w.r), w.r.id, w.r.offset, pass, r, err))
						return
					}
					if ruleSig(r) != refSig(w.r) {
						v = fail("retrieve-differs:"+cfg.name, fmt.Sprintf("RetrieveRule(%d) pass %d\n got:  %s\n want: %s", w.idx, pass, ruleSig(r), refSig(w.r)))
						return
					}
				}
			}
			// each list alone: what its own scanner reports leads back to
			// the rule through its own RetrieveRule
			for li, l := range b.Lists {
				// scan to the end first, retrieve afterwards: interleaving
				// Scan and RetrieveRule on one file-backed list is not part
				// of the property (they share the file offset)
				sc := l.NewScanner()
				var lidxs []int
				for sc.Scan() {
					r, lidx := sc.Rule()
					k := len(lidxs)
					if k >= len(refs[li]) || ruleSig(r) != refSig(refs[li][k]) {
						v = fail("scan-differs:"+cfg.name, fmt.Sprintf("list %d scanned alone: rule #%d is %s", lists[li].ID, k, ruleSig(r)))
						return
					}
					lidxs = append(lidxs, lidx)
				}
				if len(lidxs) != len(refs[li]) {
					v = fail("scan-differs:"+cfg.name, fmt.Sprintf("list %d scanned alone yields %d of %d rules", lists[li].ID, len(lidxs), len(refs[li])))
					return
				}
				for k, lidx := range lidxs {
					if many && k > 300 && k < len(lidxs)-50 {
						continue
					}
					r2, err2 := l.RetrieveRule(lidx)
					if err2 != nil || r2 == nil || ruleSig(r2) != refSig(refs[li][k]) {
						v = fail("retrieve-differs:"+cfg.name, fmt.Sprintf("list.RetrieveRule(%d) on list %d\n got:  %v err=%v\n want: %s", lidx, lists[li].ID, r2, err2, refSig(refs[li][k])))
						return
					}
				}
			}
			// a second storage over the SAME list objects must agree
			if s2, err := filterlist.NewRuleStorage(b.Lists); err == nil {
				for n, pi := range perm {
					if n >= 40 {
						break
					}
					w := wants[pi]
					r, err := s2.RetrieveRule(w.idx)
					if err != nil || r == nil || ruleSig(r) != refSig(w.r) {
						v = fail("retrieve-differs:"+cfg.name, fmt.Sprintf("a second storage over the same lists: RetrieveRule(%d)\n got:  %v err=%v\n want: %s", w.idx, r, err, refSig(w.r)))
						return
					}
				}
			}
			if many && cfg.name != "string" {
				return
			}
			// engines over this backing, built on a COLD storage (new list
			// objects over the same bytes): construction must not depend
			// on what has been retrieved before
			cold, cerr := b.Clone(false)
			if cerr != nil {
				return
			}
			defer cold.Cleanup()
			e := workload.NewEngines(cold.Storage)
			var ans []string
			for i := range reqs {
				ans = append(ans, workload.Exec(e, &reqs[i]).CanonFull())
			}
			engineAnswers = append(engineAnswers, ans)
		})
		b.Cleanup()
		if perr != "" {
			return fail("panic:"+cfg.name, perr)
		}
		if v != nil {
			return v
		}
	}
	for c := 1; c < len(engineAnswers); c++ {
		if many {
			break
		}
		for i := range reqs {
			h = fnv(h, engineAnswers[c][i])
			if engineAnswers[c][i] != engineAnswers[0][i] {
				return fail("engines-distinguish:"+configs[c].name, fmt.Sprintf("request %s\n %s backing: %s\n string backing: %s", reqs[i].Key(), configs[c].name, engineAnswers[c][i], engineAnswers[0][i]))
			}
		}
	}

	// (c) the block reader under short reads, positioned at yielded offsets
	for k := 0; k < 6 && len(wants) > 0; k++ {
		w := wants[ch.Intn("rl.which", len(wants))]
		data := []byte(lists[w.li].Text)
		cr := &disk.ChunkReader{Data: data, Pos: w.r.offset, Max: []int{1, 2, 7, 64, 4096}[ch.Intn("rl.max", 5)], Ch: ch}
		buf := make([]byte, []int{1, 2, 3, 7, 64, 4096}[ch.Intn("rl.buf", 6)])
		if giant {
			cr.Max, buf = 4096, make([]byte, 4096)
		}
		var line string
		var err error
		if perr := safely(func() { line, err = filterlist.VerifReadLine(cr, buf) }); perr != "" {
			return fail("panic:readline", perr)
		}
		if err != nil && err != io.EOF {
			return fail("readline-differs", fmt.Sprintf("readLine at offset %d: unexpected error %v", w.r.offset, err))
		}
		if line != w.r.raw {
			return fail("readline-differs", fmt.Sprintf("readLine at offset %d of list %d with a %d-byte buffer and reads of at most %d bytes\n got:  %q\n want: %q", w.r.offset, w.r.id, len(buf), cr.Max, trunc(line, 300), trunc(w.r.raw, 300)))
		}
		splitUTF8 += cr.SplitUTF8
	}

	out.Steps = reads
	out.RunHash = fnv(h, fmt.Sprint(knob, reads, total))
	out.Nontrivial = total > 0 && (longLines > 0 || splitCRLF > 0 || splitUTF8 > 0 || len(lists) > 1)
	out.Probes["rules_yielded"] = total
	out.Probes["lines_at_least_as_long_as_the_read_buffer"] = longLines
	out.Probes["chunk_boundary_inside_crlf"] = splitCRLF
	out.Probes["chunk_boundary_inside_utf8_sequence"] = splitUTF8
	out.Probes["stream_reads"] = reads
	if len(lists) > 1 {
		out.Probes["multi_list_storages"] = 1
	}
	for _, l := range lists {
		if l.ID < 0 {
			out.Probes["negative_list_ids"]++
		}
	}
	out.States = append(out.States, fnv(uint64(knob), fmt.Sprint(len(lists), total)))
	if env.KeepTrace {
		out.Sample = map[string]any{"lists": renderListsShort(lists), "knob_buffer": knob, "rules_yielded": total}
	}
	return out
}

func cmpSeq(got, want []refRule) string {
	for i := 0; i < len(got) || i < len(want); i++ {
		switch {
		case i >= len(got):
			return fmt.Sprintf("scan stops after %d rules; reference continues with %s at offset %d", len(got), refSig(want[i]), want[i].offset)
		case i >= len(want):
			return fmt.Sprintf("scan yields an extra rule #%d: %s at offset %d", i, refSig(got[i]), got[i].offset)
		case refSig(got[i]) != refSig(want[i]):
			return fmt.Sprintf("rule #%d\n got:  %s at offset %d\n want: %s at offset %d", i, trunc(refSig(got[i]), 300), got[i].offset, trunc(refSig(want[i]), 300), want[i].offset)
		}
	}
	return ""
}

func renderListsShort(lists []disk.ListPlan) []map[string]any {
	var out []map[string]any
	for _, l := range lists {
		out = append(out, map[string]any{"id": l.ID, "ignore_cosmetic": l.IgnoreCosmetic, "bytes": len(l.Text), "text": trunc(l.Text, 1200)})
	}
	return out
}
