package props

import (
	"bufio"
	"encoding/json"
	"fmt"
	"io"
	"os"
	"os/exec"

	"github.com/AdguardTeam/urlfilter"

	"verifsim/disk"
	"verifsim/workload"
)

// The reference of C13 ("the answer of the same request as the first query
// on a fresh engine") can be computed in ANOTHER PROCESS.  A fresh engine in
// the same process shares package-level state of the library with the
// history under test (a global memo of public-suffix lookups, an interning
// table): whatever spelling or value got in first serves reference and
// history alike and the difference cancels out.  The reference process sees
// the requests of every run in the reverse order, so anything that depends on
// "what this process was asked before" differs between the two.

// RefRequest asks for the fresh answers of Ops over Lists.
type RefRequest struct {
	Lists []disk.ListPlan
	Ops   []workload.Op
}

// RefAnswer is one fresh answer.
type RefAnswer struct {
	Canon   string
	Derived [workload.NumDerived]string
}

// RefResponse carries the answers, or the reason why there are none.
type RefResponse struct {
	Answers []RefAnswer
	Err     string
}

// FreshAll computes the fresh answer of every op: each on a brand-new storage
// and engine built from the same plan, in the REVERSE order of the slice.
func FreshAll(built *disk.Built, ops []workload.Op) ([]RefAnswer, string) {
	out := make([]RefAnswer, len(ops))
	for i := len(ops) - 1; i >= 0; i-- {
		o := &ops[i]
		c, err := built.Clone(false)
		if err != nil {
			return nil, "clone: " + err.Error()
		}
		perr := safely(func() {
			fe := &workload.Engines{Storage: c.Storage}
			switch o.Kind {
			case workload.OpDNS:
				fe.DNS = urlfilter.NewDNSEngine(c.Storage)
			case workload.OpWeb, workload.OpCosmetic:
				fe.Eng = urlfilter.NewEngine(c.Storage)
			default:
				fe.Net = urlfilter.NewNetworkEngine(c.Storage)
			}
			out[i].Canon = workload.Exec(fe, o).Canon()
			// each derived evaluation is taken on a result object that no
			// other derived evaluation has touched, so that the reference
			// cannot inherit (or crash on) a mutation made by a previous one
			for d := 0; d < workload.NumDerived; d++ {
				if workload.DerivedApplies(o.Kind, d) {
					out[i].Derived[d] = workload.Exec(fe, o).Derived(d)
				}
			}
		})
		c.Cleanup()
		if perr != "" {
			return nil, perr
		}
	}
	return out, ""
}

// ServeRef is the loop of the reference process: one JSON request per line
// in, one JSON response per line out.
func ServeRef(in io.Reader, out io.Writer, dir string) {
	r := bufio.NewReaderSize(in, 1<<20)
	w := bufio.NewWriter(out)
	enc := json.NewEncoder(w)
	for {
		line, err := r.ReadBytes('\n')
		if len(line) == 0 && err != nil {
			return
		}
		var req RefRequest
		resp := RefResponse{}
		if jerr := json.Unmarshal(line, &req); jerr != nil {
			resp.Err = "bad request: " + jerr.Error()
		} else if b, berr := disk.Build(req.Lists, dir, false); berr != nil {
			resp.Err = "build: " + berr.Error()
		} else {
			resp.Answers, resp.Err = FreshAll(b, req.Ops)
			b.Cleanup()
		}
		enc.Encode(&resp)
		w.Flush()
		if err != nil {
			return
		}
	}
}

// RefClient talks to a reference process.
type RefClient struct {
	self, dir string
	cmd       *exec.Cmd
	in        io.WriteCloser
	out       *bufio.Reader
	Restarts  int
	// RecycleEvery > 0: the reference process is replaced by a new one
	// after that many requests, so that whatever process-wide state the
	// library keeps is young in the reference while it is old in the worker.
	RecycleEvery int
	Recycled     int
	asked        int
}

// NewRefClient prepares (and lazily starts) `self -refserver -dir dir`.
func NewRefClient(self, dir string) *RefClient { return &RefClient{self: self, dir: dir} }

func (c *RefClient) start() error {
	c.cmd = exec.Command(c.self, "-refserver", "-dir", c.dir)
	c.cmd.Stderr = io.Discard
	in, err := c.cmd.StdinPipe()
	if err != nil {
		return err
	}
	out, err := c.cmd.StdoutPipe()
	if err != nil {
		return err
	}
	c.in, c.out = in, bufio.NewReaderSize(out, 1<<20)
	return c.cmd.Start()
}

// Close stops the reference process.
func (c *RefClient) Close() {
	if c.cmd != nil {
		c.in.Close()
		c.cmd.Process.Kill()
		c.cmd.Wait()
		c.cmd = nil
	}
}

// Ask returns the fresh answers of ops over lists, or an error text.
func (c *RefClient) Ask(lists []disk.ListPlan, ops []workload.Op) ([]RefAnswer, string) {
	req, _ := json.Marshal(&RefRequest{Lists: lists, Ops: ops})
	req = append(req, '\n')
	if c.RecycleEvery > 0 && c.cmd != nil && c.asked >= c.RecycleEvery {
		c.Close()
		c.Recycled++
		c.asked = 0
	}
	c.asked++
	for attempt := 0; attempt < 2; attempt++ {
		if c.cmd == nil {
			if err := c.start(); err != nil {
				return nil, "reference process: " + err.Error()
			}
		}
		if _, err := c.in.Write(req); err == nil {
			if line, err := c.out.ReadBytes('\n'); err == nil {
				var resp RefResponse
				if jerr := json.Unmarshal(line, &resp); jerr != nil {
					return nil, "reference process: " + jerr.Error()
				}
				return resp.Answers, resp.Err
			}
		}
		// the process died (e.g. the library crashed the reference): one
		// fresh process, one more try
		c.Close()
		c.Restarts++
	}
	return nil, fmt.Sprintf("reference process died twice on this request (pid %d)", os.Getpid())
}
