package props

import (
	"fmt"
	"regexp"
	"sort"
	"strings"

	"verifsim/core"
	"verifsim/disk"
	"verifsim/workload"
)

// HitCoverage is a self-check of the WORKLOAD, not of the library: it draws
// lists and requests exactly like the C13 histories do, answers the requests
// on fresh engines and reports, per form of rule line (host names and numbers
// abstracted away), how many lines of that form were generated and how many
// of them appeared in at least one answer.  A form that is generated but
// never answers anything is dead weight: no check can see a defect in the
// code that only such rules reach.
func HitCoverage(seed uint64, runs int, dir string) string {
	type tally struct{ gen, hit int }
	forms := map[string]*tally{}
	hostRe := regexp.MustCompile(`[a-z0-9\-\x{00fc}]+(\.[a-z0-9\-]+)*\.(org|com|net|io|co\.uk|uk|test|example|invalid)\b|localhost`)
	numRe := regexp.MustCompile(`[0-9]+`)
	form := func(l string) string {
		l = hostRe.ReplaceAllString(strings.ToLower(strings.TrimSpace(l)), "H")
		return numRe.ReplaceAllString(l, "N")
	}
	opKinds := []int{workload.OpDNS, workload.OpDNS, workload.OpDNS, workload.OpWeb, workload.OpWeb, workload.OpWeb, workload.OpMatchAll, workload.OpMatchAll, workload.OpMatch, workload.OpCosmetic, workload.OpCosmetic}
	for r := 0; r < runs; r++ {
		x := seed ^ uint64(r)*0x9e3779b97f4a7c15
		ch := core.NewChooser(core.SplitMix64(&x))
		hosts := workload.PickHosts(ch)
		lists := drawLists(ch, hosts, workload.AllKinds, 3, 1, 60, 0)
		for i := range lists {
			lists[i].File = false
			lists[i].IgnoreCosmetic = false
		}
		lines := planLines(lists)
		var ops []workload.Op
		for i := 0; i < 80; i++ {
			ops = append(ops, workload.GenOpFor(ch, hosts, opKinds, lines))
			if i%5 == 4 {
				last := ops[len(ops)-1]
				switch {
				case last.Kind == workload.OpDNS:
					ops = append(ops, workload.MutateOneField(ch, last))
				case last.Kind != workload.OpCosmetic && !last.HostnameReq:
					ops = append(ops, workload.MutateWebOp(ch, last))
				}
			}
		}
		b, err := disk.Build(lists, dir, false)
		if err != nil {
			continue
		}
		hit := map[string]bool{}
		safely(func() {
			e := workload.NewEngines(b.Storage)
			for i := range ops {
				res := workload.Exec(e, &ops[i])
				for _, t := range res.RuleTexts() {
					hit[strings.TrimSpace(t)] = true
				}
			}
		})
		b.Cleanup()
		for _, l := range lists {
			for _, ln := range strings.Split(l.Text, "\n") {
				t := strings.TrimSpace(ln)
				if t == "" || strings.HasPrefix(t, "!") {
					continue
				}
				f := form(t)
				if forms[f] == nil {
					forms[f] = &tally{}
				}
				forms[f].gen++
				h := hit[t]
				if !h {
					// a cosmetic rule shows as its content only
					if i := strings.Index(t, "##"); i >= 0 && hit[t[i+2:]] {
						h = true
					}
				}
				if h {
					forms[f].hit++
				}
			}
		}
	}
	type row struct {
		f string
		t *tally
	}
	var rows []row
	for f, t := range forms {
		rows = append(rows, row{f, t})
	}
	sort.Slice(rows, func(a, b int) bool {
		ra, rb := float64(rows[a].t.hit)/float64(rows[a].t.gen), float64(rows[b].t.hit)/float64(rows[b].t.gen)
		if ra != rb {
			return ra < rb
		}
		return rows[a].t.gen > rows[b].t.gen
	})
	var sb strings.Builder
	for _, r := range rows {
		if r.t.gen >= 5 {
			fmt.Fprintf(&sb, "%6d %6d  %5.1f%%  %s\n", r.t.gen, r.t.hit, 100*float64(r.t.hit)/float64(r.t.gen), r.f)
		}
	}
	return sb.String()
}
