package props

import (
	"fmt"
	"strings"

	urlfilter "github.com/AdguardTeam/urlfilter"
	"github.com/AdguardTeam/urlfilter/filterlist"
	"github.com/AdguardTeam/urlfilter/rules"

	"verifsim/core"
	"verifsim/disk"
	"verifsim/workload"
)

// bigOp is the i-th question of a big-cache history.  Its URL names rule i,
// then rule i+1, then rule i again: the lookup retrieves rule i, then - a
// cache miss the first time round - rule i+1, then rule i once more.  Every
// question therefore materialises exactly one new rule BETWEEN two retrievals
// of a rule that matches, whatever the number of rules already in memory.
func bigOp(i int) workload.Op {
	return workload.Op{Kind: workload.OpMatchAll,
		URL:  fmt.Sprintf("https://r%d.big.test/x.js?u=r%d.big.test&v=r%d.big.test", i, i+1, i),
		Src:  "https://page.big.test/",
		Type: rules.TypeScript}
}

func bigKey(i int) string { o := bigOp(i); return o.Key() }

// runC13Big is the rare big-cache history of C13: ONE list of 1k-17k rules
// (thorough: up to 67k), every rule of it materialised by a history of as
// many questions (see bigOp), then every question asked again in reverse
// order.  Whatever the engine or the storage bounds, evicts or starts over
// once that many rules, compiled patterns or answers are held is pushed past
// its limit in the middle of a question.
//
// Oracle.  A handful of questions spread over the history are compared with
// their fresh answers (computed before the history, like everywhere in C13).
// Building 10^4 fresh engines of 10^4 rules each is out of reach, so for the
// others the check uses what the property implies: two answers to one request
// at two points of a history cannot differ without at least one of them
// differing from THE fresh answer.  Only such a pair makes the run ask for the
// fresh answer of that request, and a violation is reported only for an answer
// that differs from it.
func runC13Big(ch *core.Chooser, env *Env, out *Outcome) *Outcome {
	sizes := []int{1100, 4200, 8300, 9000, 16500}
	if env.Thorough {
		sizes = append(sizes, 33000, 66000)
	}
	n := sizes[ch.Intn("big.size", len(sizes))] + ch.Intn("big.n", 700)
	p := disk.ListPlan{ID: listIDPool[ch.Intn("list.id", len(listIDPool))]}
	p.File = ch.Intn("list.file", 2) == 1
	var b strings.Builder
	for i := 0; i < n; i++ {
		switch i % 3 {
		case 0:
			fmt.Fprintf(&b, "||r%d.big.test^\n", i)
		case 1:
			fmt.Fprintf(&b, "||r%d.big.test^$script\n", i)
		default:
			fmt.Fprintf(&b, "||r%d.big.test^$important\n", i)
		}
	}
	p.Text = b.String()
	lists := []disk.ListPlan{p}
	const nSampled = 8
	off := ch.Intn("big.sample", n/nSampled)
	var sampled []int
	var needed []workload.Op
	for k := 0; k < nSampled; k++ {
		sampled = append(sampled, k*(n/nSampled)+off)
		needed = append(needed, bigOp(sampled[k]))
	}

	sub, err := disk.Build(lists, env.Dir, false)
	if err != nil {
		out.Invalid, out.InvalidReason = true, "build: "+err.Error()
		return out
	}
	defer sub.Cleanup()
	filterlist.VerifSetHooks(filterlist.VerifHooks{Yield: core.MainHooks()})
	defer filterlist.VerifSetHooks(filterlist.VerifHooks{})

	ask := func(ops []workload.Op) ([]RefAnswer, string) {
		if env.Ref != nil {
			a, e := env.Ref(lists, ops)
			out.Probes["reference_answers_from_another_process"] += len(a)
			return a, e
		}
		return FreshAll(sub, ops)
	}
	answers, rerr := ask(needed)
	if rerr != "" || len(answers) != len(needed) {
		out.Invalid, out.InvalidReason = true, "reference: "+rerr
		return out
	}
	fresh := map[int]string{}
	for k, i := range sampled {
		fresh[i] = answers[k].Canon
	}

	var e *workload.Engines
	if perr := safely(func() {
		e = &workload.Engines{Storage: sub.Storage, Net: urlfilter.NewNetworkEngine(sub.Storage)}
	}); perr != "" {
		out.Invalid, out.InvalidReason = true, perr
		return out
	}
	plan := fmt.Sprintf("one %s list (id %d) of %d rules ||r<i>.big.test^[$script|$important]", map[bool]string{true: "file-backed", false: "in-memory"}[p.File], p.ID, n)
	hist := []string{fmt.Sprintf("for i in 0..%d: MatchAll %s (URL names rule i, rule i+1, rule i)", n-1, bigKey(0))}
	fail := func(class, detail string) *Outcome {
		out.Violation = &Violation{Class: class, Detail: detail}
		if env.KeepTrace {
			out.Sample = map[string]any{"lists": plan, "history": hist}
		}
		return out
	}
	// confirm decides, with the fresh answer of question i, which of two
	// different answers to it is wrong
	confirm := func(i int, first, second, when string) *Outcome {
		o := bigOp(i)
		a, rerr := ask([]workload.Op{o})
		if rerr != "" || len(a) != 1 {
			out.Invalid, out.InvalidReason = true, "reference: "+rerr
			return out
		}
		out.Probes["big_cache_pairs_confirmed_on_a_fresh_engine"]++
		for _, c := range []struct{ got, at string }{{first, "as question " + fmt.Sprint(i) + " of the history"}, {second, when}} {
			if c.got != a[0].Canon {
				return fail("answer-differs:matchall", fmt.Sprintf("big-cache history, request %s asked %s\n after history: %s\n fresh engine:  %s", o.Key(), c.at, c.got, a[0].Canon))
			}
		}
		// unreachable unless the reference itself is not repeatable
		out.Invalid, out.InvalidReason = true, "two different answers both equal to the fresh one"
		return out
	}

	canon := make([]string, n)
	type kept struct {
		i   int
		res *workload.Result
	}
	var retainedRes []kept
	h := uint64(0)
	var bad *Outcome
	// ---- the history: every rule is materialised in the middle of a question
	for i := 0; i < n && bad == nil; i++ {
		o := bigOp(i)
		var res *workload.Result
		if perr := safely(func() { res = workload.Exec(e, &o) }); perr != "" {
			return fail("panic:matchall", fmt.Sprintf("big-cache history: query %d %s panicked\n%s", i, o.Key(), perr))
		}
		canon[i] = res.Canon()
		h = fnv(h, canon[i])
		if f, ok := fresh[i]; ok {
			retainedRes = append(retainedRes, kept{i, res})
			if canon[i] != f {
				hist = append(hist, fmt.Sprintf("query %d %s -> %s", i, o.Key(), trunc(canon[i], 300)))
				return fail("answer-differs:matchall", fmt.Sprintf("big-cache history, step %d request %s\n after history: %s\n fresh engine:  %s", i, o.Key(), canon[i], f))
			}
		}
		if i%1024 == 0 {
			out.States = append(out.States, uint64(sub.Storage.GetCacheSize())<<16^uint64(i)<<40)
		}
	}
	out.Probes["big_cache_rules_in_memory_after_the_history"] += sub.Storage.GetCacheSize()
	// ---- every question once more, in reverse order
	for i := n - 1; i >= 0; i-- {
		o := bigOp(i)
		var c string
		if perr := safely(func() { c = workload.Exec(e, &o).Canon() }); perr != "" {
			return fail("panic:matchall", fmt.Sprintf("big-cache history: query %d %s, asked again, panicked\n%s", i, o.Key(), perr))
		}
		h = fnv(h, c)
		if c != canon[i] {
			hist = append(hist, fmt.Sprintf("query %d %s -> %s", i, o.Key(), trunc(canon[i], 300)), fmt.Sprintf("the same request again after all %d questions -> %s", n, trunc(c, 300)))
			return confirm(i, canon[i], c, "again after the whole history")
		}
	}
	for _, r := range retainedRes {
		if now := r.res.Canon(); now != canon[r.i] {
			return fail("old-result-changed:matchall", fmt.Sprintf("after the big-cache history the result previously returned for %s changed\n was: %s\n now: %s", bigKey(r.i), canon[r.i], now))
		}
	}
	nonEmpty := 0
	for _, c := range canon {
		if strings.Contains(c, "@") || strings.Contains(c, "=[.") || strings.Contains(c, "=[#") || strings.Contains(c, "big.test^") {
			nonEmpty++
		}
	}
	out.Steps = 2 * n
	out.RunHash = h
	out.Nontrivial = nonEmpty >= n/2
	out.Probes["big_cache_runs"] = 1
	out.Probes["queries"] = 2 * n
	out.Probes["queries_with_nonempty_answer"] = 2 * nonEmpty
	out.Probes["repeated_requests"] = n
	out.Probes["fresh_engines_built"] = len(fresh)
	if env.KeepTrace {
		out.Sample = map[string]any{"lists": plan, "history": append(hist, fmt.Sprintf("then every question once more, from %d down to 0; %d questions spread over the history compared with fresh engines", n-1, nSampled))}
	}
	return out
}
