package props

import (
	"fmt"
	"os"

	"github.com/AdguardTeam/urlfilter/filterlist"

	"verifsim/core"
	"verifsim/disk"
	"verifsim/workload"
)

func init() { Registry["C14"] = RunC14 }

// concPlan is the drawn plan of a concurrent run (shared by C14 and C19).
type concPlan struct {
	hosts []string
	lists []disk.ListPlan
	pool  []workload.Op
	tasks [][]int // per task: indices into pool
	warm  []int   // pool indices executed before the tasks start
	cfg   core.SchedConfig
}

func drawConcPlan(ch *core.Chooser, env *Env, fileMode int, maxTasks int, kinds []int) *concPlan {
	p := &concPlan{}
	p.hosts = workload.PickHosts(ch)
	maxLines := 40
	if env.Thorough {
		maxLines = 90
	}
	p.lists = drawLists(ch, p.hosts, kinds, 3, 4, maxLines, fileMode)

	// request pool: small, so that tasks collide on the same indices; some
	// entries differ from their predecessor in exactly one client field
	allLines := planLines(p.lists)
	opKinds := []int{workload.OpDNS, workload.OpDNS, workload.OpDNS, workload.OpWeb, workload.OpWeb, workload.OpMatchAll, workload.OpMatchAll, workload.OpMatch, workload.OpCosmetic}
	for i := 0; i < 12; i++ {
		if i == 0 {
			ch.Begin("req")
		} else if !ch.More("req", 75) {
			break
		}
		if i > 0 && (p.pool[i-1].Kind == workload.OpDNS || p.pool[i-1].HostnameReq) && ch.Intn("pool.mutate", 3) == 2 {
			p.pool = append(p.pool, workload.MutateOneField(ch, p.pool[i-1]))
		} else if i > 0 && p.pool[i-1].Kind == workload.OpWeb && ch.Intn("pool.mutate", 3) == 2 {
			p.pool = append(p.pool, workload.MutateWebOp(ch, p.pool[i-1]))
		} else {
			p.pool = append(p.pool, workload.GenOpFor(ch, p.hosts, opKinds, allLines))
		}
		ch.End()
	}
	np := len(p.pool)
	taskPct := []int{40, 60, 80, 93}[ch.Intn("tasks.pct", 4)]
	opsPct := []int{40, 60, 75}[ch.Intn("tasks.opspct", 3)]
	same := ch.Intn("tasks.same", 4) == 3 // everyone asks the same thing
	maxOps := 6
	switch ch.Intn("tasks.shape", 25) {
	case 24:
		// a crowd: more callers than any fixed-size pool or semaphore of a
		// few dozen slots
		if maxTasks >= 32 {
			maxTasks, taskPct = 80, 98
		}
	case 22, 23:
		// long-lived callers: hundreds of calls on one engine in one run
		// (tickets, rings and counters wrap)
		maxOps, opsPct = 64, 97
	}
	var first []int
	for t := 0; t < maxTasks; t++ {
		if t < 2 {
			ch.Begin("task")
		} else if !ch.More("task", taskPct) {
			break
		}
		var ops []int
		for j := 0; j < maxOps; j++ {
			if j == 0 {
				ch.Begin("op")
			} else if !ch.More("op", opsPct) {
				break
			}
			ops = append(ops, ch.Intn("task.op", np))
			ch.End()
		}
		if same {
			if t == 0 {
				first = ops
			} else {
				ops = first
			}
		}
		p.tasks = append(p.tasks, ops)
		ch.End()
	}
	if ch.Intn("warm", 4) == 3 {
		for i := 0; i < np; i++ {
			if ch.Intn("warm.pick", 2) == 1 {
				p.warm = append(p.warm, i)
			}
		}
	}
	return p
}

func (p *concPlan) render() map[string]any {
	var pool []string
	for i := range p.pool {
		pool = append(pool, p.pool[i].Key())
	}
	return map[string]any{"lists": renderPlans(p.lists), "request_pool": pool, "tasks": p.tasks, "warm": p.warm,
		"strategy": []string{"random", "sticky", "pct", "herd"}[p.cfg.Strategy]}
}

// reference computes the sequential answer of every pool entry on a separate
// storage built from the same plan, and counts the scheduling points each
// query passes when run alone.
func (p *concPlan) reference(env *Env) (answers []string, steps []int, perr string) {
	ref, err := disk.Build(p.lists, env.Dir, false)
	if err != nil {
		return nil, nil, "build: " + err.Error()
	}
	defer ref.Cleanup()
	cnt, restore := countingHooks()
	defer restore()
	perr = safely(func() {
		e := workload.NewEngines(ref.Storage)
		for i := range p.pool {
			before := cnt()
			answers = append(answers, workload.Exec(e, &p.pool[i]).CanonFull())
			steps = append(steps, cnt()-before)
		}
	})
	return answers, steps, perr
}

// RunC14 is one simulated execution for C14: N caller goroutines share one
// storage and its engines; the seeded scheduler decides every interleaving at
// the cache, file-read, lazy-compile and pool boundaries; every answer must
// equal the sequential answer.
func RunC14(ch *core.Chooser, env *Env) *Outcome {
	out := newOutcome()
	p := drawConcPlan(ch, env, 0, 32, workload.AllKinds)

	// In half of the runs the sequential reference is computed AFTER the
	// concurrent execution: state the library keeps outside its engines
	// (package-level caches) is then cold when the tasks run, instead of
	// having been filled by the reference on the main goroutine.
	refAfter := ch.Intn("c14.refafter", 2) == 1
	var answers []string
	total := 0
	if !refAfter {
		var seqSteps []int
		var perr string
		answers, seqSteps, perr = p.reference(env)
		if perr != "" {
			out.Invalid, out.InvalidReason = true, perr
			return out
		}
		for _, ops := range p.tasks {
			for _, o := range ops {
				total += seqSteps[o] + 1
			}
		}
	} else {
		// step budget from a generous per-query estimate
		for _, ops := range p.tasks {
			total += 120 * len(ops)
		}
	}
	p.cfg = core.DrawSchedConfig(ch, total)
	p.cfg.StepCap = 50*total + 1000

	sub, err := disk.Build(p.lists, env.Dir, false)
	if err != nil {
		out.Invalid, out.InvalidReason = true, "build: "+err.Error()
		return out
	}
	defer sub.Cleanup()
	var e *workload.Engines
	if perr := safely(func() {
		e = workload.NewEngines(sub.Storage)
		for _, w := range p.warm {
			workload.Exec(e, &p.pool[w])
		}
	}); perr != "" {
		out.Invalid, out.InvalidReason = true, perr
		return out
	}

	got := make([][]string, len(p.tasks))
	bodies := make([]func(*core.TaskCtx), len(p.tasks))
	for i := range p.tasks {
		ops := p.tasks[i]
		got[i] = make([]string, len(ops))
		bodies[i] = func(t *core.TaskCtx) {
			for j, o := range ops {
				got[i][j] = workload.Exec(e, &p.pool[o]).CanonFull()
				t.Yield()
			}
		}
	}
	s := &core.Sched{Gate: env.NewGate(), LockMode: env.LockMode, Ch: ch, Cfg: p.cfg, KeepTrace: env.KeepTrace}
	mu := sub.Storage.VerifCacheMu()
	_ = mu
	y, n := s.Hooks()
	filterlist.VerifSetHooks(filterlist.VerifHooks{Yield: y, Note: n})
	res := s.Run(bodies)
	filterlist.VerifSetHooks(filterlist.VerifHooks{})

	out.Steps = res.Steps
	out.States = res.StateHashes
	out.RunHash = res.TraceHash
	out.Nontrivial = res.Probes.Preemptions > 0 && res.Steps > 2*len(p.tasks)
	addProbes(out, &res.Probes)
	if env.KeepTrace {
		out.Sample = p.render()
		out.Sample["steps"] = res.Steps
		out.Sample["trace"] = renderTrace(res.Trace, 400)
	}

	if res.FreeRunDeadlock {
		out.Violation = &Violation{Class: "deadlock", Detail: fmt.Sprintf("after %d scheduled steps a task blocked in a lock held by a parked task; the scheduler then let every task run freely (a real, uncontrolled execution) and all unfinished tasks ended up blocked on locks for ever", res.Steps)}
		return out
	}
	if res.SpecBlocked || res.SpecSkipped || res.UnhookedBlock {
		out.Skipped = true
		if res.Leaked {
			out.Probes["tasks_left_parked_for_ever_race_build"]++
		}
		switch {
		case res.UnhookedBlock:
			out.Probes["released_task_blocked_on_a_lock_without_scheduling_point_run_abandoned"]++
		case res.SpecBlocked:
			out.Probes["speculative_release_blocked_run_abandoned"]++
		default:
			out.Probes["speculative_run_not_executed_in_this_mode"]++
		}
		return out
	}
	switch {
	case len(res.Panics) > 0:
		out.Violation = &Violation{Class: "panic", Detail: res.Panics[0]}
		return out
	case res.Deadlock:
		out.Violation = &Violation{Class: "deadlock", Detail: fmt.Sprintf("no task enabled after %d steps with unfinished tasks (bounded progress)", res.Steps)}
		return out
	case res.StepCap:
		out.Violation = &Violation{Class: "no-progress", Detail: fmt.Sprintf("run exceeded twice its step cap %d (50x the sequential step count), the second half under a fair least-recently-run schedule", p.cfg.StepCap)}
		return out
	}
	if refAfter {
		var perr string
		if answers, _, perr = p.reference(env); perr != "" {
			out.Invalid, out.InvalidReason = true, perr
			return out
		}
	}
	for i := range p.tasks {
		for j, o := range p.tasks[i] {
			out.RunHash = fnv(out.RunHash, got[i][j])
			if got[i][j] != answers[o] && out.Violation == nil {
				out.Violation = &Violation{Class: "answer-mismatch:" + opClass(&p.pool[o]),
					Detail: fmt.Sprintf("task %d op %d request %s\n concurrent: %s\n sequential: %s", i, j, p.pool[o].Key(), got[i][j], answers[o])}
			}
		}
	}
	return out
}

func opClass(o *workload.Op) string {
	return []string{"dns", "web", "matchall", "match", "cosmetic", "rescan"}[o.Kind]
}

func addProbes(out *Outcome, p *core.Probes) {
	out.Probes["double_miss_same_index"] += p.DoubleMiss
	out.Probes["disabled_at_file_lock_while_other_between_seek_and_read"] += p.SeekReadContended
	out.Probes["disabled_at_rule_lock"] += p.RuleLockContended
	out.Probes["disabled_at_cache_lock_while_other_inside_cache_critical_section"] += p.CacheLockContended
	out.Probes["pooled_request_seen_by_two_tasks"] += p.PoolHandoff
	out.Probes["preemptions"] += p.Preemptions
	out.Probes["lock_tracking_corrected_by_real_probe"] += p.TrackingCorrected
	out.Probes["speculative_release_did_not_block"] += p.SpecPassed
	out.Probes["fair_phase_after_step_cap"] += p.FairPhase
	if p.MaxEnabled > out.Probes["max_enabled_tasks"] {
		out.Probes["max_enabled_tasks"] = p.MaxEnabled
	}
}

func renderTrace(tr []core.Event, max int) []string {
	var out []string
	if os.Getenv("VERIF_FULL_TRACE") != "" {
		max = len(tr)
	}
	for i, ev := range tr {
		if i >= max {
			out = append(out, fmt.Sprintf("... %d more", len(tr)-max))
			break
		}
		out = append(out, fmt.Sprintf("t%d->%s#%d", ev.Task, core.PointName(int(ev.Point)), ev.Obj))
	}
	return out
}
