// Package props holds one simulated check per claimed property.
package props

import (
	"fmt"
	"math"
	"runtime/debug"
	"strings"
	"sync/atomic"

	"github.com/AdguardTeam/urlfilter/filterlist"

	"verifsim/core"
	"verifsim/disk"
	"verifsim/workload"
)

// Env is the per-process environment of a run.
type Env struct {
	// NewGate returns the hand-off gate of this mode.
	NewGate  func() core.Gate
	LockMode core.LockMode
	// Dir is a scratch directory for list files (created and removed by the
	// worker).
	Dir string
	// Race is true in the race-detector build.
	Race bool
	// Thorough widens bounds.
	Thorough bool
	// KeepTrace retains traces and rendered plans (samples, replay).
	KeepTrace bool
	// Params are per-run parameters that are not drawn from the Chooser
	// (C19 fault plans; part of the replay file).
	Params map[string]int
	// Memo caches reference answers across the fault-plan enumeration of one
	// base execution (all of which replay the same plan draws).  The worker
	// resets it for every base.
	Memo map[string]any
	// Ref, if set, computes reference answers in another process (C13).
	Ref func(lists []disk.ListPlan, ops []workload.Op) ([]RefAnswer, string)
}

// Violation is a property violation found by a run.
type Violation struct {
	// Class is the violation class; shrinking must preserve it.
	Class  string `json:"class"`
	Detail string `json:"detail"`
}

// Outcome is everything one run reports.
type Outcome struct {
	Violation *Violation
	// Invalid marks a run whose REFERENCE execution failed (e.g. panicked):
	// the workload is discarded, never reported.
	Invalid       bool
	InvalidReason string
	// Skipped marks a run that was abandoned by design (a speculative
	// release that blocked, or a speculative run in a mode that cannot
	// speculate): discarded, never reported, no determinism record.
	Skipped bool
	// RunHash identifies the execution (schedule/event log + answers); two
	// executions of one choice log must agree on it.
	RunHash uint64
	// Nontrivial per the property's stated rule.
	Nontrivial bool
	Steps      int
	Evals      int // executions inside this run (fault enumeration runs many)
	Probes     map[string]int
	Faults     map[string]int
	States     []uint64
	// FaultPlans, set by a base (fault-free) execution of a
	// fault-enumeration property, lists the parameter sets to re-execute the
	// same choice log with.
	FaultPlans []map[string]int
	// Sample is a human-readable rendering of the run.
	Sample map[string]any
}

func newOutcome() *Outcome {
	return &Outcome{Probes: map[string]int{}, Faults: map[string]int{}, Evals: 1}
}

// RunFunc executes one run of a property.
type RunFunc func(ch *core.Chooser, env *Env) *Outcome

// Registry maps property ids to their run functions.
var Registry = map[string]RunFunc{}

var listIDPool = []int{1, 2, 3, 0, -1, 1000, math.MinInt32, math.MaxInt32, -77, 32768, -32769, 65535, 65536, 70000, 1<<24 + 3, -40000}

var bufKnob = []int{0, 0, 4096, 64, 7, 3, 2, 1}

// drawLists draws 1..maxLists list plans from the given kind mix.  fileMode:
// 0 any mix of backings, 1 all file-backed, 2 all in-memory.
func drawLists(ch *core.Chooser, hosts []string, kinds []int, maxLists, minLines, maxLines int, fileMode int) []disk.ListPlan {
	var ids []int
	var plans []disk.ListPlan
	kinds = workload.SwarmKinds(ch, kinds)
	pct := []int{80, 90, 95, 97}[ch.Intn("list.linespct", 4)]
	for i := 0; i < maxLists; i++ {
		if i == 0 {
			ch.Begin("list")
		} else if !ch.More("list", 45) {
			break
		}
		// distinct ids, including negative, zero and extreme ones
		id := listIDPool[ch.Intn("list.id", len(listIDPool))]
		for dup := true; dup; {
			dup = false
			for _, x := range ids {
				if x == id {
					dup = true
					id = listIDPool[(indexOfInt(listIDPool, id)+1)%len(listIDPool)]
				}
			}
		}
		ids = append(ids, id)
		lines := workload.GenList(ch, kinds, hosts, minLines, maxLines, pct)
		p := disk.ListPlan{ID: id, Text: strings.Join(lines, "\n")}
		if ch.Intn("list.finalnl", 2) == 0 {
			p.Text += "\n"
		}
		f := ch.Intn("list.file", 2) == 1
		switch fileMode {
		case 0:
			p.File = f
		case 1:
			p.File = true
		}
		p.BufSize = bufKnob[ch.Intn("list.buf", len(bufKnob))]
		p.IgnoreCosmetic = ch.Intn("list.igncos", 4) == 3
		plans = append(plans, p)
		ch.End()
	}
	// now and then the first list is on disk twice under two ids: two
	// FileRuleLists opened on ONE path (whatever is shared per path -
	// descriptors, offsets, registries - is shared between them)
	if fileMode != 2 && ch.Intn("list.twin", 8) == 7 {
		plans[0].File = true
		tw := plans[0]
		tw.ID = listIDPool[(indexOfInt(listIDPool, plans[0].ID)+5)%len(listIDPool)]
		for dup := true; dup; {
			dup = false
			for _, l := range plans {
				if l.ID == tw.ID {
					dup = true
					tw.ID = listIDPool[(indexOfInt(listIDPool, tw.ID)+1)%len(listIDPool)]
				}
			}
		}
		plans[0].ShareKey, tw.ShareKey = "twin", "twin"
		plans = append(plans, tw)
	}
	return plans
}

func indexOfInt(xs []int, v int) int {
	for i, x := range xs {
		if x == v {
			return i
		}
	}
	return 0
}

// safely runs f and converts a panic into an error string.
func safely(f func()) (perr string) {
	defer func() {
		if r := recover(); r != nil {
			perr = fmt.Sprintf("%v\n%s", r, debug.Stack())
		}
	}()
	f()
	return ""
}

// countingHooks installs hooks that only count scheduling points (no task
// is parked) and returns the counter and a restore function.
func countingHooks() (n func() int, restore func()) {
	// the library may call hooks from goroutines of its own: count atomically
	c := new(atomic.Int64)
	filterlist.VerifSetHooks(filterlist.VerifHooks{Yield: func(string, any, int64) { c.Add(1) }})
	return func() int { return int(c.Load()) }, func() { filterlist.VerifSetHooks(filterlist.VerifHooks{}) }
}

func fnv(h uint64, s string) uint64 {
	if h == 0 {
		h = 14695981039346656037
	}
	for i := 0; i < len(s); i++ {
		h ^= uint64(s[i])
		h *= 1099511628211
	}
	h ^= 0xff
	h *= 1099511628211
	return h
}

func renderPlans(plans []disk.ListPlan) []map[string]any {
	var out []map[string]any
	for _, p := range plans {
		out = append(out, map[string]any{"id": p.ID, "file": p.File, "buf": p.BufSize, "ignore_cosmetic": p.IgnoreCosmetic, "faulty_stub": p.Faulty, "text": p.Text})
	}
	return out
}

func trunc(s string, n int) string {
	if len(s) > n {
		return s[:n] + "..."
	}
	return s
}

// planLines returns the lines of the lists of a plan that requests may be
// derived from.  Very long lines are left out: a request for the 9000-byte
// "host" of a 9000-byte rule makes the library match a 9000-state pattern
// against a 9000-byte URL, which costs seconds per query and says nothing.
func planLines(lists []disk.ListPlan) (lines []string) {
	for _, l := range lists {
		if len(l.Text) > 1<<17 {
			continue // the rare huge lists are not worth splitting
		}
		for _, ln := range strings.Split(l.Text, "\n") {
			if len(ln) <= 200 {
				lines = append(lines, ln)
			}
		}
	}
	return lines
}
