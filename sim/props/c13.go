package props

import (
	"fmt"
	"runtime"
	"runtime/debug"
	"strings"

	"github.com/AdguardTeam/urlfilter/filterlist"
	"github.com/AdguardTeam/urlfilter/rules"

	"verifsim/core"
	"verifsim/disk"
	"verifsim/workload"
)

func init() { Registry["C13"] = RunC13 }

// freshAnswer is the reference: the answer of one request on a brand-new
// storage + engine built from the same plan, used once and discarded.
type freshAnswer struct {
	canon   string
	derived [workload.NumDerived]string
}

type retained struct {
	op       int // index into the history's request table
	res      *workload.Result
	snapshot string
}

// step kinds of a planned history
const (
	stEnvFlush = iota
	stDerived
	stQuery
	stFlood
	stTransient
)

type histStep struct {
	kind int
	op   int // stQuery: index into table
	// stDerived
	ringPick, d0 int
	// stFlood
	floodN    int
	floodBase string
	// stTransient: the next failN retrievals of list failList fail
	failList, failN int
}

// floodOp is the i-th request of a flood under base.
func floodOp(i int, base string) workload.Op {
	switch i % 4 {
	case 2:
		return workload.Op{Kind: workload.OpWeb, URL: fmt.Sprintf("https://f%d.%s/ads.js?i=%d", i, base, i), Src: fmt.Sprintf("https://s%d.%s/page", i, base), Type: rules.TypeScript}
	case 3:
		return workload.Op{Kind: workload.OpCosmetic, Host: fmt.Sprintf("f%d.%s", i, base), CosOpt: rules.CosmeticOptionAll}
	default:
		return workload.Op{Kind: workload.OpDNS, Host: fmt.Sprintf("f%d.%s", i, base), DNSType: 1}
	}
}

// RunC13 is one simulated query history for C13.  The simulator owns the
// history and the hidden state between queries: the request pool (recycled
// object vs fresh object: GOMAXPROCS(1) makes recycling deterministic, a
// Chooser-placed double GC empties the pool), the rule cache (cold, pre-warmed
// or grown by the history), the lazy-compile state of every rule (a function
// of the history), the backing kind and the read-buffer knob.
//
// The history is PLANNED first (all draws), then every reference answer is
// computed - each on a brand-new storage and engine, and in the REVERSE order
// of first appearance, so that state kept outside the engines (package-level
// caches) cannot pollute reference and history in the same order and cancel
// out - and only then is the history executed on the long-lived engines.
func RunC13(ch *core.Chooser, env *Env) *Outcome {
	out := newOutcome()
	// rarely: the big-cache history (c13big.go)
	if ch.Intn("hist.big", 500) == 499 {
		return runC13Big(ch, env, out)
	}
	hosts := workload.PickHosts(ch)
	maxLines, maxOps := 60, 120
	if env.Thorough {
		maxLines, maxOps = 150, 400
	}
	lists := drawLists(ch, hosts, workload.AllKinds, 3, 1, maxLines, 0)
	// (No read failures here: C13 quantifies over query histories on readable
	// lists.  A variant of this check that made "the next N retrievals fail"
	// a history step flagged a correct memo that keeps repeating an answer it
	// computed while a list was failing - behaviour no listed property
	// forbids - so it was removed again; see DESIGN.md 10.4.)
	var stubbed []int

	// ---- plan
	allLines := planLines(lists)
	opKinds := []int{workload.OpDNS, workload.OpDNS, workload.OpDNS, workload.OpDNS, workload.OpWeb, workload.OpWeb, workload.OpWeb, workload.OpMatchAll, workload.OpMatchAll, workload.OpMatch, workload.OpCosmetic, workload.OpCosmetic}
	var table []workload.Op
	var steps []histStep
	var warmOps []workload.Op
	lastDNS, lastWeb, lastCos := -1, -1, -1
	queriesPlanned, repeats, oneField := 0, 0, 0
	pct := []int{85, 95, 98, 99}[ch.Intn("hist.pct", 4)]
	warm := ch.Intn("hist.warm", 4) == 3
	floodRun := ch.Intn("hist.flood", 8) == 7
	flooded := false
	if warm {
		for i := 0; i < 6; i++ {
			warmOps = append(warmOps, workload.GenOpFor(ch, hosts, opKinds, allLines))
		}
	}
	for n := 0; n < maxOps; n++ {
		if n == 0 {
			ch.Begin("step")
		} else if !ch.More("step", pct) {
			break
		}
		ringLen := queriesPlanned
		if ringLen > 16 {
			ringLen = 16
		}
		act := ch.Intn("hist.act", 20)
		switch {
		case act == 1 && !flooded && floodRun:
			flooded = true
			steps = append(steps, histStep{kind: stFlood, floodN: 150 + ch.Intn("flood.n", 1400), floodBase: hosts[ch.Intn("q.host", len(hosts))]})
		case act == 0:
			steps = append(steps, histStep{kind: stEnvFlush})
		case act == 2 && len(stubbed) > 0:
			steps = append(steps, histStep{kind: stTransient, failList: stubbed[ch.Intn("hist.faillist", len(stubbed))], failN: 1 + ch.Intn("hist.failn", 3)})
		case act <= 6 && ringLen > 0:
			steps = append(steps, histStep{kind: stDerived, ringPick: ch.Intn("hist.old", ringLen), d0: ch.Intn("hist.derived", workload.NumDerived)})
		default:
			var o workload.Op
			switch q := ch.Intn("hist.q", 12); {
			case q <= 2 && lastDNS >= 0:
				o = workload.MutateOneField(ch, table[lastDNS])
				oneField++
			case q == 10 && lastWeb >= 0:
				// a neighbour sub-request of the same site
				o = workload.MutateWebOp(ch, table[lastWeb])
				oneField++
			case q == 11 && lastCos >= 0:
				// the same cosmetic question for another host
				o = table[lastCos]
				o.Host = hosts[ch.Intn("q.host", len(hosts))]
				oneField++
			case q <= 4 && len(table) > 0:
				o = table[ch.Intn("hist.repeat", len(table))]
				repeats++
			default:
				o = workload.GenOpFor(ch, hosts, opKinds, allLines)
			}
			table = append(table, o)
			oi := len(table) - 1
			switch {
			case o.Kind == workload.OpDNS:
				lastDNS = oi
			case o.Kind == workload.OpCosmetic:
				lastCos = oi
			case !o.HostnameReq:
				lastWeb = oi
			}
			queriesPlanned++
			steps = append(steps, histStep{kind: stQuery, op: oi})
		}
		ch.End()
	}

	sub, err := disk.Build(lists, env.Dir, false)
	if err != nil {
		out.Invalid, out.InvalidReason = true, "build: "+err.Error()
		return out
	}
	defer sub.Cleanup()

	// GC only where the Chooser says so: pool recycling becomes a pure
	// function of the history
	old := debug.SetGCPercent(-1)
	defer func() {
		debug.SetGCPercent(old)
		runtime.GC()
	}()
	filterlist.VerifSetHooks(filterlist.VerifHooks{Yield: core.MainHooks()})
	defer filterlist.VerifSetHooks(filterlist.VerifHooks{})

	// ---- reference: every distinct request, in reverse order of first
	// appearance, each on a brand-new storage and engine - in another
	// process if the worker provides one
	fresh := map[string]*freshAnswer{}
	var needed []workload.Op
	seenKey := map[string]bool{}
	add := func(o workload.Op) {
		if k := o.Key(); !seenKey[k] {
			seenKey[k] = true
			needed = append(needed, o)
		}
	}
	for _, o := range table {
		add(o)
	}
	for _, st := range steps {
		if st.kind == stFlood {
			for i := 24; i < st.floodN; i += 25 {
				add(floodOp(i, st.floodBase))
			}
			// a few early flood requests are asked again at the end of the
			// flood (a bounded memo may have evicted or mixed them up)
			for i := 0; i < 12 && i < st.floodN; i++ {
				add(floodOp(i, st.floodBase))
			}
		}
	}
	var answers []RefAnswer
	var rerr string
	if env.Ref != nil {
		answers, rerr = env.Ref(lists, needed)
		out.Probes["reference_answers_from_another_process"] += len(answers)
	} else {
		answers, rerr = FreshAll(sub, needed)
	}
	if rerr != "" || len(answers) != len(needed) {
		out.Invalid, out.InvalidReason = true, "reference: "+rerr
		return out
	}
	for i := range needed {
		fresh[needed[i].Key()] = &freshAnswer{canon: answers[i].Canon, derived: answers[i].Derived}
	}

	// ---- execution on the long-lived engines
	var e *workload.Engines
	if perr := safely(func() {
		e = workload.NewEngines(sub.Storage)
		for i := range warmOps {
			workload.Exec(e, &warmOps[i])
		}
	}); perr != "" {
		out.Invalid, out.InvalidReason = true, perr
		return out
	}

	var hist []string // rendered history (samples / replay)
	var ring []*retained
	queries, derivedOnOld, flushes, nonEmpty := 0, 0, 0, 0
	flushedSinceDNS := false

	fail := func(class, detail string) *Outcome {
		out.Violation = &Violation{Class: class, Detail: detail}
		if env.KeepTrace {
			out.Sample = map[string]any{"lists": renderPlans(lists), "history": hist}
		}
		return out
	}
	checkRetained := func(after string) *Outcome {
		for _, r := range ring {
			if now := r.res.Canon(); now != r.snapshot {
				return fail("old-result-changed:"+opClass(&table[r.op]), fmt.Sprintf("after %s, the result previously returned for %s changed\n was: %s\n now: %s", after, table[r.op].Key(), r.snapshot, now))
			}
		}
		return nil
	}

	for si, st := range steps {
		switch st.kind {
		case stFlood:
			// a flood of distinct requests: whatever the engine memoises per
			// request (bounded caches, counters) is pushed past its limits
			bad := ""
			ask := func(i int, compare bool) {
				for _, fy := range sub.Faulty {
					if fy != nil && fy.Active() {
						compare = false // a list is still failing: degraded answers are legitimate
					}
				}
				o := floodOp(i, st.floodBase)
				var c string
				if perr := safely(func() { c = workload.Exec(e, &o).Canon() }); perr != "" {
					bad = fmt.Sprintf("flood query %s panicked\n%s", o.Key(), perr)
					return
				}
				if compare {
					if f := fresh[o.Key()]; f != nil && c != f.canon {
						bad = fmt.Sprintf("flood request #%d %s\n after history: %s\n fresh engine:  %s", i, o.Key(), c, f.canon)
					}
				}
			}
			for i := 0; i < st.floodN && bad == ""; i++ {
				ask(i, i%25 == 24 || i < 12)
			}
			for i := 0; i < 12 && i < st.floodN && bad == ""; i++ {
				ask(i, true)
			}
			hist = append(hist, fmt.Sprintf("flood: %d distinct requests under %s, the first 12 asked again", st.floodN, st.floodBase))
			out.Probes["flood_requests"] += st.floodN
			if bad != "" {
				return fail("answer-differs:flood", bad)
			}
			if o := checkRetained("a flood of distinct requests"); o != nil {
				return o
			}
		case stTransient:
			if err := sub.Inject(disk.FStubTransient, st.failList, env.Dir, st.failN); err != nil {
				out.Invalid, out.InvalidReason = true, "inject: "+err.Error()
				return out
			}
			out.Faults["stub_transient"]++
			hist = append(hist, fmt.Sprintf("env: the next %d retrievals from list #%d fail", st.failN, st.failList))
		case stEnvFlush:
			runtime.GC()
			runtime.GC()
			flushes++
			flushedSinceDNS = true
			hist = append(hist, "env: pool flush (2x GC)")
		case stDerived:
			if st.ringPick >= len(ring) {
				break
			}
			r := ring[st.ringPick]
			f := fresh[table[r.op].Key()]
			// every derived evaluation that applies to this kind of result,
			// starting at a Chooser-chosen one
			for k := 0; k < workload.NumDerived; k++ {
				d := (st.d0 + k) % workload.NumDerived
				var v string
				if perr := safely(func() { v = r.res.Derived(d) }); perr != "" {
					return fail("panic:derived", perr)
				}
				if v == "" {
					continue
				}
				derivedOnOld++
				hist = append(hist, fmt.Sprintf("derived %d on result of %s -> %s", d, table[r.op].Key(), trunc(v, 200)))
				if v != f.derived[d] {
					return fail("derived-differs:"+opClass(&table[r.op]), fmt.Sprintf("derived evaluation %d on an old result of %s\n history: %s\n fresh:   %s", d, table[r.op].Key(), v, f.derived[d]))
				}
				if o := checkRetained(fmt.Sprintf("derived evaluation %d on result of %s", d, table[r.op].Key())); o != nil {
					return o
				}
			}
		case stQuery:
			o := table[st.op]
			if o.Kind == workload.OpDNS {
				flushedSinceDNS = false
			}
			f := fresh[o.Key()]
			// while a stub is still failing the answer is legitimately
			// degraded (that is C19's business): the query is executed but
			// neither compared nor retained
			degraded := false
			for _, fy := range sub.Faulty {
				degraded = degraded || (fy != nil && fy.Active())
			}
			var res *workload.Result
			var reqBefore, reqAfter string
			if perr := safely(func() {
				if o.Kind == workload.OpWeb || o.Kind == workload.OpMatchAll || o.Kind == workload.OpMatch {
					// the caller's request object must come back untouched
					req := o.Request()
					reqBefore = renderRequest(req)
					res = execWithRequest(e, &o, req)
					reqAfter = renderRequest(req)
				} else {
					res = workload.Exec(e, &o)
				}
			}); perr != "" {
				if degraded {
					out.Invalid, out.InvalidReason = true, "panic while a list was failing (C19's domain): "+perr
					return out
				}
				return fail("panic:"+opClass(&o), fmt.Sprintf("query %s panicked although the same query on a fresh engine did not\n%s", o.Key(), perr))
			}
			if degraded {
				out.Probes["queries_while_a_list_was_failing_not_compared"]++
				hist = append(hist, fmt.Sprintf("query %s (a list is failing: not compared)", o.Key()))
				break
			}
			queries++
			if res.DNS != nil && len(res.DNS.NetworkRules) > 0 {
				all, exc := true, false
				for _, nr := range res.DNS.NetworkRules {
					all = all && nr.DNSRewrite != nil
					exc = exc || (nr.Whitelist && nr.DNSRewrite != nil)
				}
				if exc {
					out.Probes["dns_answers_with_rewrite_exception"]++
					if all {
						out.Probes["dns_answers_only_rewrites_incl_exception"]++
					}
				}
			}
			c := res.Canon()
			if strings.Contains(c, "@") || strings.Contains(c, "=[.") || strings.Contains(c, "=[#") {
				nonEmpty++
			}
			hist = append(hist, fmt.Sprintf("query %s -> %s", o.Key(), trunc(c, 300)))
			if c != f.canon {
				return fail("answer-differs:"+opClass(&o), fmt.Sprintf("step %d request %s\n after history: %s\n fresh engine:  %s", si, o.Key(), c, f.canon))
			}
			if reqBefore != reqAfter {
				return fail("request-mutated:"+opClass(&o), fmt.Sprintf("the caller's request object was changed by %s\n before: %s\n after:  %s", o.Key(), reqBefore, reqAfter))
			}
			if o := checkRetained("query " + o.Key()); o != nil {
				return o
			}
			ring = append(ring, &retained{op: st.op, res: res, snapshot: c})
			if len(ring) > 16 {
				ring = ring[1:]
			}
		}
		fl := uint64(0)
		if flushedSinceDNS {
			fl = 1
		}
		out.States = append(out.States, uint64(sub.Storage.GetCacheSize())<<16^uint64(len(ring))<<1^fl^uint64(queries)<<40)
	}

	out.Steps = len(hist)
	h := uint64(0)
	for _, s := range hist {
		h = fnv(h, s)
	}
	out.RunHash = h
	out.Nontrivial = queries >= 3 && (repeats > 0 || oneField > 0) && derivedOnOld > 0
	out.Probes["queries"] = queries
	out.Probes["queries_with_nonempty_answer"] = nonEmpty
	out.Probes["repeated_requests"] = repeats
	out.Probes["adjacent_one_field_apart"] = oneField
	out.Probes["derived_evaluations_on_old_results"] = derivedOnOld
	out.Probes["pool_flushes"] = flushes
	out.Probes["fresh_engines_built"] = len(fresh)
	if warm {
		out.Probes["prewarmed_histories"] = 1
	}
	if env.KeepTrace {
		out.Sample = map[string]any{"lists": renderPlans(lists), "history": hist}
	}
	return out
}

func execWithRequest(e *workload.Engines, o *workload.Op, req *rules.Request) *workload.Result {
	r := &workload.Result{Kind: o.Kind}
	switch o.Kind {
	case workload.OpWeb:
		r.Web = e.Eng.MatchRequest(req)
	case workload.OpMatchAll:
		r.All = e.Net.MatchAll(req)
	case workload.OpMatch:
		r.One, r.Matched = e.Net.Match(req)
	}
	return r
}

// renderRequest renders the fields of a request that are its INPUT to a query.
// Only those must come back unchanged: a caller that reuses the object would
// otherwise ask a different question next time.  Unexported fields (a memo
// the library may keep in the request) are none of the caller's business.
func renderRequest(r *rules.Request) string {
	return fmt.Sprintf("URL=%q lower=%q host=%q domain=%q src=%q srchost=%q srcdomain=%q type=%d dnstype=%d third=%t hostreq=%t client=%q ip=%v tags=%q",
		r.URL, r.URLLowerCase, r.Hostname, r.Domain, r.SourceURL, r.SourceHostname, r.SourceDomain, r.RequestType, r.DNSType, r.ThirdParty, r.IsHostnameRequest, r.ClientName, r.ClientIP, r.SortedClientTags)
}
