package props

import (
	"fmt"
	"runtime"
	"runtime/debug"
	"strings"

	"github.com/AdguardTeam/urlfilter"
	"github.com/AdguardTeam/urlfilter/filterlist"
	"github.com/AdguardTeam/urlfilter/rules"

	"verifsim/core"
	"verifsim/disk"
	"verifsim/workload"
)

func init() { Registry["C13"] = RunC13 }

// freshAnswer is the reference: the answer of one request on a brand-new
// storage + engine built from the same plan, used once and discarded.
type freshAnswer struct {
	canon   string
	derived [workload.NumDerived]string
}

type retained struct {
	op       int // index into the history's request table
	res      *workload.Result
	snapshot string
}

// RunC13 is one simulated query history for C13.  The simulator owns the
// history and the hidden state between queries: the request pool (recycled
// object vs fresh object: GOMAXPROCS(1) makes recycling deterministic, a
// Chooser-placed double GC empties the pool), the rule cache (cold, pre-warmed
// or grown by the history), the lazy-compile state of every rule (a function
// of the history), the backing kind and the read-buffer knob.
func RunC13(ch *core.Chooser, env *Env) *Outcome {
	out := newOutcome()
	hosts := workload.PickHosts(ch)
	maxLines, maxOps := 60, 120
	if env.Thorough {
		maxLines, maxOps = 150, 400
	}
	lists := drawLists(ch, hosts, workload.AllKinds, 3, 1, maxLines, 0)

	sub, err := disk.Build(lists, env.Dir, false)
	if err != nil {
		out.Invalid, out.InvalidReason = true, "build: "+err.Error()
		return out
	}
	defer sub.Cleanup()

	// GC only where the Chooser says so: pool recycling becomes a pure
	// function of the history
	old := debug.SetGCPercent(-1)
	defer func() {
		debug.SetGCPercent(old)
		runtime.GC()
	}()

	filterlist.VerifSetHooks(filterlist.VerifHooks{Yield: core.MainHooks()})
	defer filterlist.VerifSetHooks(filterlist.VerifHooks{})
	var e *workload.Engines
	if perr := safely(func() { e = workload.NewEngines(sub.Storage) }); perr != "" {
		out.Invalid, out.InvalidReason = true, perr
		return out
	}

	fresh := map[string]*freshAnswer{}
	freshOf := func(o *workload.Op) (*freshAnswer, string) {
		k := o.Key()
		if f, ok := fresh[k]; ok {
			return f, ""
		}
		f := &freshAnswer{}
		c, err := sub.Clone(false)
		if err != nil {
			return nil, "clone: " + err.Error()
		}
		defer c.Cleanup()
		perr := safely(func() {
			fe := &workload.Engines{Storage: c.Storage}
			switch o.Kind {
			case workload.OpDNS:
				fe.DNS = urlfilter.NewDNSEngine(c.Storage)
			case workload.OpWeb, workload.OpCosmetic:
				fe.Eng = urlfilter.NewEngine(c.Storage)
			default:
				fe.Net = urlfilter.NewNetworkEngine(c.Storage)
			}
			f.canon = workload.Exec(fe, o).Canon()
			// each derived evaluation is taken on a result object that no
			// other derived evaluation has touched, so that the reference
			// cannot inherit (or crash on) a mutation made by a previous one
			for d := 0; d < workload.NumDerived; d++ {
				if workload.DerivedApplies(o.Kind, d) {
					f.derived[d] = workload.Exec(fe, o).Derived(d)
				}
			}
		})
		if perr != "" {
			return nil, perr
		}
		fresh[k] = f
		return f, ""
	}

	opKinds := []int{workload.OpDNS, workload.OpDNS, workload.OpDNS, workload.OpDNS, workload.OpWeb, workload.OpWeb, workload.OpWeb, workload.OpMatchAll, workload.OpMatchAll, workload.OpMatch, workload.OpCosmetic, workload.OpCosmetic}
	var table []workload.Op // every request of the history
	var hist []string       // rendered history (samples / replay)
	var ring []*retained
	lastDNS, lastWeb, lastCos := -1, -1, -1
	cachePrev := map[int64]string{}
	queries, repeats, oneField, derivedOnOld, flushes, nonEmpty := 0, 0, 0, 0, 0, 0
	flushedSinceDNS := false
	pct := []int{85, 95, 98, 99}[ch.Intn("hist.pct", 4)]
	warm := ch.Intn("hist.warm", 4) == 3
	floodRun := ch.Intn("hist.flood", 8) == 7
	flooded := false

	fail := func(class, detail string) *Outcome {
		out.Violation = &Violation{Class: class, Detail: detail}
		if env.KeepTrace {
			out.Sample = map[string]any{"lists": renderPlans(lists), "history": hist}
		}
		return out
	}

	if warm {
		// pre-warm the cache with a Chooser subset of requests
		for i := 0; i < 6; i++ {
			o := workload.GenOp(ch, hosts, opKinds)
			if perr := safely(func() { workload.Exec(e, &o) }); perr != "" {
				out.Invalid, out.InvalidReason = true, perr
				return out
			}
		}
	}

	checkRetained := func(after string) *Outcome {
		for _, r := range ring {
			if now := r.res.Canon(); now != r.snapshot {
				return fail("old-result-changed:"+opClass(&table[r.op]), fmt.Sprintf("after %s, the result previously returned for %s changed\n was: %s\n now: %s", after, table[r.op].Key(), r.snapshot, now))
			}
		}
		return nil
	}

	for step := 0; step < maxOps; step++ {
		if step == 0 {
			ch.Begin("step")
		} else if !ch.More("step", pct) {
			break
		}
		act := ch.Intn("hist.act", 20)
		switch {
		case act == 1 && !flooded && floodRun:
			// a flood of distinct requests: whatever the engine memoises
			// per request (bounded caches, counters) is pushed past its
			// limits; one in 25 of them is compared with a fresh engine
			flooded = true
			n := 150 + ch.Intn("flood.n", 1400)
			base := hosts[ch.Intn("q.host", len(hosts))]
			bad := ""
			for i := 0; i < n && bad == ""; i++ {
				var o workload.Op
				if i%3 == 2 {
					o = workload.Op{Kind: workload.OpWeb, URL: fmt.Sprintf("https://f%d.%s/ads.js?i=%d", i, base, i), Src: fmt.Sprintf("https://s%d.%s/page", i, base), Type: rules.TypeScript}
				} else {
					o = workload.Op{Kind: workload.OpDNS, Host: fmt.Sprintf("f%d.%s", i, base), DNSType: 1}
				}
				var c string
				if perr := safely(func() { c = workload.Exec(e, &o).Canon() }); perr != "" {
					return fail("panic:"+opClass(&o), fmt.Sprintf("flood query %s panicked\n%s", o.Key(), perr))
				}
				if i%25 == 24 {
					f, perr := freshOf(&o)
					if perr != "" {
						out.Invalid, out.InvalidReason = true, perr
						ch.End()
						return out
					}
					if c != f.canon {
						bad = fmt.Sprintf("flood request #%d %s\n after history: %s\n fresh engine:  %s", i, o.Key(), c, f.canon)
					}
				}
			}
			hist = append(hist, fmt.Sprintf("flood: %d distinct requests under %s", n, base))
			out.Probes["flood_requests"] += n
			if bad != "" {
				return fail("answer-differs:flood", bad)
			}
			if o := checkRetained("a flood of distinct requests"); o != nil {
				return o
			}
		case act == 0: // environment: flush the request pool
			runtime.GC()
			runtime.GC()
			flushes++
			flushedSinceDNS = true
			hist = append(hist, "env: pool flush (2x GC)")
		case act <= 6 && len(ring) > 0: // derived evaluations on an old result
			r := ring[ch.Intn("hist.old", len(ring))]
			// every derived evaluation that applies to this kind of
			// result, starting at a Chooser-chosen one
			d0 := ch.Intn("hist.derived", workload.NumDerived)
			f, perr := freshOf(&table[r.op])
			if perr != "" {
				out.Invalid, out.InvalidReason = true, perr
				ch.End()
				return out
			}
			for k := 0; k < workload.NumDerived; k++ {
				d := (d0 + k) % workload.NumDerived
				var v string
				if perr := safely(func() { v = r.res.Derived(d) }); perr != "" {
					return fail("panic:derived", perr)
				}
				if v == "" {
					continue
				}
				derivedOnOld++
				hist = append(hist, fmt.Sprintf("derived %d on result of %s -> %s", d, table[r.op].Key(), trunc(v, 200)))
				if v != f.derived[d] {
					return fail("derived-differs:"+opClass(&table[r.op]), fmt.Sprintf("derived evaluation %d on an old result of %s\n history: %s\n fresh:   %s", d, table[r.op].Key(), v, f.derived[d]))
				}
				if o := checkRetained(fmt.Sprintf("derived evaluation %d on result of %s", d, table[r.op].Key())); o != nil {
					return o
				}
			}
		default: // a query
			var o workload.Op
			switch q := ch.Intn("hist.q", 12); {
			case q <= 2 && lastDNS >= 0:
				o = workload.MutateOneField(ch, table[lastDNS])
				oneField++
			case q == 10 && lastWeb >= 0:
				// a neighbour sub-request of the same site
				o = workload.MutateWebOp(ch, table[lastWeb])
				oneField++
			case q == 11 && lastCos >= 0:
				// the same cosmetic question for another host
				o = table[lastCos]
				o.Host = hosts[ch.Intn("q.host", len(hosts))]
				oneField++
			case q <= 4 && len(table) > 0:
				o = table[ch.Intn("hist.repeat", len(table))]
				repeats++
			default:
				o = workload.GenOp(ch, hosts, opKinds)
			}
			table = append(table, o)
			oi := len(table) - 1
			switch {
			case o.Kind == workload.OpDNS:
				lastDNS = oi
				flushedSinceDNS = false
			case o.Kind == workload.OpCosmetic:
				lastCos = oi
			case !o.HostnameReq:
				lastWeb = oi
			}
			f, perr := freshOf(&o)
			if perr != "" {
				out.Invalid, out.InvalidReason = true, perr
				ch.End()
				return out
			}
			var res *workload.Result
			var reqBefore, reqAfter string
			if perr := safely(func() {
				if o.Kind == workload.OpWeb || o.Kind == workload.OpMatchAll || o.Kind == workload.OpMatch {
					// the caller's request object must come back untouched
					req := o.Request()
					reqBefore = renderRequest(req)
					res = execWithRequest(e, &o, req)
					reqAfter = renderRequest(req)
				} else {
					res = workload.Exec(e, &o)
				}
			}); perr != "" {
				return fail("panic:"+opClass(&o), fmt.Sprintf("query %s panicked although the same query on a fresh engine did not\n%s", o.Key(), perr))
			}
			queries++
			if res.DNS != nil && len(res.DNS.NetworkRules) > 0 {
				all, exc := true, false
				for _, nr := range res.DNS.NetworkRules {
					all = all && nr.DNSRewrite != nil
					exc = exc || (nr.Whitelist && nr.DNSRewrite != nil)
				}
				if exc {
					out.Probes["dns_answers_with_rewrite_exception"]++
					if all {
						out.Probes["dns_answers_only_rewrites_incl_exception"]++
					}
				}
			}
			c := res.Canon()
			if strings.Contains(c, "@") || strings.Contains(c, "=[.") || strings.Contains(c, "=[#") {
				nonEmpty++
			}
			hist = append(hist, fmt.Sprintf("query %s -> %s", o.Key(), trunc(c, 300)))
			if c != f.canon {
				return fail("answer-differs:"+opClass(&o), fmt.Sprintf("step %d request %s\n after history: %s\n fresh engine:  %s", step, o.Key(), c, f.canon))
			}
			if reqBefore != reqAfter {
				return fail("request-mutated:"+opClass(&o), fmt.Sprintf("the caller's request object was changed by %s\n before: %s\n after:  %s", o.Key(), reqBefore, reqAfter))
			}
			if o := checkRetained("query " + o.Key()); o != nil {
				return o
			}
			ring = append(ring, &retained{op: oi, res: res, snapshot: c})
			if len(ring) > 16 {
				ring = ring[1:]
			}
			// cache invariant: keys only grow, a key's rule never changes
			if queries%8 == 0 {
				snap := sub.Storage.VerifCacheSnapshot()
				for k, t := range cachePrev {
					r, ok := snap[k]
					if !ok {
						return fail("cache-key-lost", fmt.Sprintf("cache entry %d (%s) disappeared", k, t))
					}
					if now := fmt.Sprintf("%s@%d", r.Text(), r.GetFilterListID()); now != t {
						return fail("cache-value-changed", fmt.Sprintf("cache entry %d changed from %s to %s", k, t, now))
					}
				}
				for k, r := range snap {
					if _, ok := cachePrev[k]; !ok {
						cachePrev[k] = fmt.Sprintf("%s@%d", r.Text(), r.GetFilterListID())
					}
				}
			}
		}
		fl := uint64(0)
		if flushedSinceDNS {
			fl = 1
		}
		out.States = append(out.States, uint64(len(cachePrev))<<16^uint64(len(ring))<<1^fl^uint64(queries)<<40)
		ch.End()
	}

	out.Steps = len(hist)
	h := uint64(0)
	for _, s := range hist {
		h = fnv(h, s)
	}
	out.RunHash = h
	out.Nontrivial = queries >= 3 && (repeats > 0 || oneField > 0) && derivedOnOld > 0
	out.Probes["queries"] = queries
	out.Probes["queries_with_nonempty_answer"] = nonEmpty
	out.Probes["repeated_requests"] = repeats
	out.Probes["adjacent_one_field_apart"] = oneField
	out.Probes["derived_evaluations_on_old_results"] = derivedOnOld
	out.Probes["pool_flushes"] = flushes
	out.Probes["fresh_engines_built"] = len(fresh)
	if warm {
		out.Probes["prewarmed_histories"] = 1
	}
	if env.KeepTrace {
		out.Sample = map[string]any{"lists": renderPlans(lists), "history": hist}
	}
	return out
}

func execWithRequest(e *workload.Engines, o *workload.Op, req *rules.Request) *workload.Result {
	r := &workload.Result{Kind: o.Kind}
	switch o.Kind {
	case workload.OpWeb:
		r.Web = e.Eng.MatchRequest(req)
	case workload.OpMatchAll:
		r.All = e.Net.MatchAll(req)
	case workload.OpMatch:
		r.One, r.Matched = e.Net.Match(req)
	}
	return r
}

func renderRequest(r *rules.Request) string {
	return fmt.Sprintf("%+v", *r)
}
