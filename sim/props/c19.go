package props

import (
	"fmt"
	"sort"
	"strings"

	"github.com/AdguardTeam/urlfilter"
	"github.com/AdguardTeam/urlfilter/filterlist"
	"github.com/AdguardTeam/urlfilter/filterutil"
	"github.com/AdguardTeam/urlfilter/rules"

	"verifsim/core"
	"verifsim/disk"
	"verifsim/workload"
)

func init() { Registry["C19"] = RunC19 }

// rkey identifies a rule by what a user can observe of it.
type rkey struct {
	text string
	id   int
}

func (k rkey) String() string { return fmt.Sprintf("%s@%d", k.text, k.id) }

type bag map[rkey]int

func keyOf(r rules.Rule) rkey { return rkey{r.Text(), r.GetFilterListID()} }

func bagOfNR(rs []*rules.NetworkRule) (b bag, hasNil bool) {
	b = bag{}
	for _, r := range rs {
		if r == nil {
			hasNil = true
			continue
		}
		b[keyOf(r)]++
	}
	return b, hasNil
}

func bagOfHR(rs []*rules.HostRule) (b bag, hasNil bool) {
	b = bag{}
	for _, r := range rs {
		if r == nil {
			hasNil = true
			continue
		}
		b[keyOf(r)]++
	}
	return b, hasNil
}

// truth is the fault-free reference for one request.
type truth struct {
	full   string // fault-free answer incl. derived evaluations
	nrs    bag    // network rules that may be returned (the fault-free MatchAll answer(s))
	v4, v6 bag    // host rules that truly match the host name (own Match of every host rule in the lists), as sets
	// fHosts: the fault-free answer reached the host-rule lookup (no network
	// rule decided), so fV4/fV6 are its complete host-rule multisets (the
	// engine may legitimately return one host rule several times, e.g. for
	// "0.0.0.0 a.org a.org")
	fHosts   bool
	fV4, fV6 bag
	cos      urlfilter.CosmeticResult // fault-free cosmetic result
}

func computeTruth(e *workload.Engines, o *workload.Op, scanHosts bool) *truth {
	t := &truth{nrs: bag{}, v4: bag{}, v6: bag{}}
	res := workload.Exec(e, o)
	t.full = res.CanonFull()
	t.cos = res.Cos
	switch o.Kind {
	case workload.OpDNS:
		t.nrs, _ = bagOfNR(res.DNS.NetworkRules)
		t.fHosts = res.DNS.NetworkRule == nil
		t.fV4, _ = bagOfHR(res.DNS.HostRulesV4)
		t.fV6, _ = bagOfHR(res.DNS.HostRulesV6)
		// The engine only looks at host rules when no network rule decides,
		// so the fault-free ANSWER may omit host rules that truly match;
		// under a fault (the deciding network rule unreadable) they are
		// legitimately served.  Truth for host rules is therefore every host
		// rule of the lists whose own Match accepts the name.
		sc := e.Storage.NewRuleStorageScanner()
		for scanHosts && sc.Scan() {
			r, _ := sc.Rule()
			if hr, ok := r.(*rules.HostRule); ok && hr.Match(o.Host) {
				if hr.IP.Is4() {
					t.v4[keyOf(hr)]++
				} else {
					t.v6[keyOf(hr)]++
				}
			}
		}
	case workload.OpMatchAll:
		t.nrs, _ = bagOfNR(res.All)
	case workload.OpMatch:
		t.nrs, _ = bagOfNR(e.Net.MatchAll(o.Request()))
	case workload.OpWeb:
		req := o.Request()
		t.nrs, _ = bagOfNR(e.Net.MatchAll(req))
		if req.SourceURL != "" {
			b, _ := bagOfNR(e.Net.MatchAll(rules.NewRequest(req.SourceURL, "", rules.TypeDocument)))
			for k, n := range b {
				t.nrs[k] += n
			}
		}
	}
	return t
}

func subBag(name string, got, allowed bag) string {
	for k, n := range got {
		if n > allowed[k] {
			return fmt.Sprintf("%s returns %s %d time(s) but the fault-free answer has it %d time(s)", name, k, n, allowed[k])
		}
	}
	return ""
}

func inBag(name string, r *rules.NetworkRule, allowed bag) string {
	if r != nil && allowed[keyOf(r)] == 0 {
		return fmt.Sprintf("%s is %s, which is not among the fault-free matching rules", name, keyOf(r))
	}
	return ""
}

// served collects every rule a result hands to the caller.
func served(res *workload.Result, into map[rkey]bool) {
	add := func(r *rules.NetworkRule) {
		if r != nil {
			into[keyOf(r)] = true
		}
	}
	switch res.Kind {
	case workload.OpDNS:
		for _, r := range res.DNS.NetworkRules {
			add(r)
		}
		for _, r := range res.DNS.HostRulesV4 {
			if r != nil {
				into[keyOf(r)] = true
			}
		}
		for _, r := range res.DNS.HostRulesV6 {
			if r != nil {
				into[keyOf(r)] = true
			}
		}
	case workload.OpMatchAll:
		for _, r := range res.All {
			add(r)
		}
	case workload.OpMatch:
		add(res.One)
	case workload.OpWeb:
		add(res.Web.BasicRule)
		add(res.Web.DocumentRule)
		add(res.Web.StealthRule)
	}
}

// checkDegraded is the oracle for a query that ran at or after a fault (or
// overlapped it).  P = rules served by queries that completed before this one
// was invoked; inMem = ids of lists that cannot fail (in-memory, unwrapped).
// Returns (class, detail) or "".
//
// A rule is observable only as (text, list id).  If the same line occurs more
// than once in a list the copies are different indexes that cannot be told
// apart from outside, and "a copy was served before" says nothing about the
// copy this request needs; the served-before clause is therefore applied to
// lines that are unique in their list (copies[k] == 1) only.
func checkDegraded(o *workload.Op, res *workload.Result, t *truth, P map[rkey]bool, inMem map[int]bool, copies map[rkey]int) (string, string) {
	oc := opClass(o)
	must := func(k rkey) bool { return inMem[k.id] || (P[k] && copies[k] == 1) }
	// "continues to be served" is about presence: how OFTEN a rule appears in
	// an answer (an index listed twice in a bucket) is not promised, and a
	// correct memo of a degraded answer may legitimately repeat it
	lower := func(name string, want, got bag) string {
		for k := range want {
			if must(k) && got[k] == 0 {
				return fmt.Sprintf("%s: %s was already materialised (served by an earlier completed query, or lives in an in-memory list) and is in the fault-free answer, but is no longer returned", name, k)
			}
		}
		return ""
	}
	switch o.Kind {
	case workload.OpDNS:
		d := res.DNS
		nrs, n1 := bagOfNR(d.NetworkRules)
		v4, n2 := bagOfHR(d.HostRulesV4)
		v6, n3 := bagOfHR(d.HostRulesV6)
		if n1 || n2 || n3 {
			return "nil-rule:" + oc, "a result slice contains a nil rule: " + res.Canon()
		}
		if m := subBag("NetworkRules", nrs, t.nrs); m != "" {
			return "superset:" + oc, m
		}
		if t.fHosts {
			for _, m := range []string{subBag("HostRulesV4", v4, t.fV4), subBag("HostRulesV6", v6, t.fV6)} {
				if m != "" {
					return "superset:" + oc, m
				}
			}
		} else {
			for _, x := range []struct {
				name       string
				got, truly bag
			}{{"HostRulesV4", v4, t.v4}, {"HostRulesV6", v6, t.v6}} {
				for k := range x.got {
					if x.truly[k] == 0 {
						return "superset:" + oc, fmt.Sprintf("%s returns %s, which does not match the host name", x.name, k)
					}
				}
			}
		}
		if d.NetworkRule != nil && nrs[keyOf(d.NetworkRule)] == 0 {
			return "superset:" + oc, fmt.Sprintf("NetworkRule %s is not among the returned NetworkRules", keyOf(d.NetworkRule))
		}
		if has := d.NetworkRule != nil || len(d.HostRulesV4)+len(d.HostRulesV6) > 0; has != res.Matched {
			return "inconsistent-matched:" + oc, fmt.Sprintf("matched=%t but %s", res.Matched, res.Canon())
		}
		for _, r := range d.DNSRewrites() {
			if m := inBag("a DNSRewrites() element", r, t.nrs); m != "" {
				return "superset:" + oc, m
			}
			if r != nil && nrs[keyOf(r)] == 0 {
				return "inconsistent-result:" + oc, fmt.Sprintf("DNSRewrites() returns %s, which is not among this result's NetworkRules", keyOf(r))
			}
		}
		if m := lower("NetworkRules", t.nrs, nrs); m != "" {
			return "lost-materialised:" + oc, m
		}
		if d.NetworkRule == nil {
			w4, w6 := t.fV4, t.fV6
			if !t.fHosts {
				// the fault-free answer stopped at a network rule: all that
				// is known is which host rules truly match
				w4, w6 = bag{}, bag{}
				for k := range t.v4 {
					w4[k] = 1
				}
				for k := range t.v6 {
					w6[k] = 1
				}
			}
			for _, m := range []string{lower("HostRulesV4", w4, v4), lower("HostRulesV6", w6, v6)} {
				if m != "" {
					return "lost-materialised:" + oc, m
				}
			}
		}
	case workload.OpMatchAll:
		got, hasNil := bagOfNR(res.All)
		if hasNil {
			return "nil-rule:" + oc, "MatchAll returned a nil rule"
		}
		if m := subBag("MatchAll", got, t.nrs); m != "" {
			return "superset:" + oc, m
		}
		if m := lower("MatchAll", t.nrs, got); m != "" {
			return "lost-materialised:" + oc, m
		}
	case workload.OpMatch:
		if m := inBag("Match rule", res.One, t.nrs); m != "" {
			return "superset:" + oc, m
		}
		if (res.One != nil) != res.Matched {
			return "inconsistent-matched:" + oc, res.Canon()
		}
	case workload.OpWeb:
		w := res.Web
		for _, m := range []string{inBag("BasicRule", w.BasicRule, t.nrs), inBag("DocumentRule", w.DocumentRule, t.nrs), inBag("StealthRule", w.StealthRule, t.nrs)} {
			if m != "" {
				return "superset:" + oc, m
			}
		}
		for _, l := range [][]*rules.NetworkRule{w.CspRules, w.CookieRules, w.ReplaceRules} {
			b, hasNil := bagOfNR(l)
			if hasNil {
				return "nil-rule:" + oc, "a MatchingResult slice contains a nil rule"
			}
			if m := subBag("MatchingResult list", b, t.nrs); m != "" {
				return "superset:" + oc, m
			}
		}
		_ = w.GetBasicResult()
		_ = w.GetCosmeticOption()
	case workload.OpCosmetic:
		// Today cosmetic rules live in memory after construction and a fault
		// cannot touch them; a variant that retrieves them lazily may serve
		// fewer.  What the property demands is a subset: no selector that
		// the fault-free answer does not have (an unreadable EXCEPTION must
		// not let its rule through).
		want := t.cos
		got := res.Cos
		for _, x := range []struct {
			name      string
			got, want []string
		}{{"ElementHiding.Generic", got.ElementHiding.Generic, want.ElementHiding.Generic}, {"ElementHiding.Specific", got.ElementHiding.Specific, want.ElementHiding.Specific},
			{"ElementHiding.GenericExtCSS", got.ElementHiding.GenericExtCSS, want.ElementHiding.GenericExtCSS}, {"ElementHiding.SpecificExtCSS", got.ElementHiding.SpecificExtCSS, want.ElementHiding.SpecificExtCSS},
			{"CSS.Generic", got.CSS.Generic, want.CSS.Generic}, {"CSS.Specific", got.CSS.Specific, want.CSS.Specific}, {"JS.Generic", got.JS.Generic, want.JS.Generic}, {"JS.Specific", got.JS.Specific, want.JS.Specific}} {
			have := map[string]int{}
			for _, w := range x.want {
				have[w]++
			}
			for _, g := range x.got {
				if have[g] == 0 {
					return "superset:" + oc, fmt.Sprintf("cosmetic result %s contains %q, which the fault-free result does not (or not that often)\n got:  %s\n want: %s", x.name, g, res.Canon(), t.full)
				}
				have[g]--
			}
		}
	}
	return "", ""
}

// faultPlan is read from env.Params.
type faultPlan struct {
	at, kind, target, n int
	at2, kind2, target2 int
}

func readFaultPlan(env *Env) faultPlan {
	get := func(k string, def int) int {
		if v, ok := env.Params[k]; ok {
			return v
		}
		return def
	}
	return faultPlan{at: get("fault_at", -1), kind: get("fault_kind", 0), target: get("fault_target", 0), n: get("fault_n", 1),
		at2: get("fault2_at", -1), kind2: get("fault2_kind", 0), target2: get("fault2_target", 0)}
}

// enumeratePlans lists every (instant, kind, target) fault plan for a base
// execution with `instants` fault instants, plus a few double faults.
func enumeratePlans(b *disk.Built, instants int) []map[string]int {
	var plans []map[string]int
	type kt struct{ k, t, n int }
	var kts []kt
	for k := 0; k < disk.NumFaultKinds; k++ {
		for t := range b.Lists {
			if b.Applicable(k, t) {
				if k == disk.FStubTransient {
					kts = append(kts, kt{k, t, 1}, kt{k, t, 3})
				} else {
					kts = append(kts, kt{k, t, 1})
				}
			}
		}
	}
	for at := 0; at < instants; at++ {
		for _, x := range kts {
			plans = append(plans, map[string]int{"fault_at": at, "fault_kind": x.k, "fault_target": x.t, "fault_n": x.n})
		}
	}
	// double faults: Close twice; one list first, then the whole storage
	for at := 0; at < instants; at += 1 + instants/4 {
		for _, x := range kts {
			if x.k == disk.FStubTransient {
				continue
			}
			at2 := at + (instants-at)/2
			plans = append(plans, map[string]int{"fault_at": at, "fault_kind": x.k, "fault_target": x.t, "fault_n": 1,
				"fault2_at": at2, "fault2_kind": disk.FStorageClose, "fault2_target": 0})
		}
	}
	return plans
}

func faultName(k int) string { return disk.FaultNames[k] }

// drawFaultLists draws lists of which at least one can become unreadable.
func drawFaultLists(ch *core.Chooser, lists []disk.ListPlan) {
	any := false
	for i := range lists {
		if ch.Intn("list.faulty", 3) == 2 {
			lists[i].Faulty = true
		}
		any = any || lists[i].Faulty || lists[i].File
	}
	if !any {
		lists[0].File = true
	}
}

// lineCopies counts, per (trimmed line, list id), how often the line occurs.
func lineCopies(lists []disk.ListPlan) map[rkey]int {
	m := map[rkey]int{}
	for _, l := range lists {
		for _, line := range strings.Split(l.Text, "\n") {
			if t := strings.TrimSpace(line); t != "" {
				m[rkey{t, l.ID}]++
			}
		}
	}
	return m
}

func inMemIDs(lists []disk.ListPlan) map[int]bool {
	m := map[int]bool{}
	for _, l := range lists {
		if !l.File && !l.Faulty {
			m[l.ID] = true
		}
	}
	return m
}

// RunC19 is ONE execution under ONE fault plan (env.Params).  With no fault
// plan it is the base execution: it checks the fault-free run against the
// reference and returns the list of fault plans to enumerate; the worker then
// re-executes the same choice log once per plan.
func RunC19(ch *core.Chooser, env *Env) *Outcome {
	out := newOutcome()
	if ch.Intn("c19.mode", 3) == 2 {
		return runC19Conc(ch, env, out)
	}
	return runC19Seq(ch, env, out)
}

func runC19Seq(ch *core.Chooser, env *Env, out *Outcome) *Outcome {
	fp := readFaultPlan(env)
	hosts := workload.PickHosts(ch)
	maxLines, maxOps := 30, 16
	if env.Thorough {
		maxLines, maxOps = 80, 40
	}
	lists := drawLists(ch, hosts, workload.AllKinds, 3, 1, maxLines, 0)
	drawFaultLists(ch, lists)
	opKinds := []int{workload.OpDNS, workload.OpDNS, workload.OpDNS, workload.OpMatchAll, workload.OpMatchAll, workload.OpWeb, workload.OpMatch, workload.OpCosmetic}
	// Now and then a rule that is reachable through TWO keys of an index (a
	// $domain rule permitted on two domains, a hosts line with two names),
	// preceded in the bucket of the second key by a rule that lives there
	// only.  The history asks through the first key early and through the
	// second key late: with the fault in between, the rule is in memory, its
	// neighbour is not.
	var twoKey [2]*workload.Op
	if ch.Intn("c19.twokey", 8) == 7 {
		li := 0
		for i := range lists {
			if lists[i].File || lists[i].Faulty {
				li = i
			}
		}
		x, d := hosts[ch.Intn("twokey.x", len(hosts))], hosts[ch.Intn("twokey.d", len(hosts))]
		if x != d && !strings.HasSuffix(x, "."+d) && !strings.HasSuffix(d, "."+x) {
			t := lists[li].Text
			if t != "" && !strings.HasSuffix(t, "\n") {
				t += "\n"
			}
			switch kind := ch.Intn("twokey.kind", 3); {
			case kind == 2:
				// not one rule under two keys but two rules under ONE key:
				// host names whose 32-bit hashes collide, the second one in
				// the list that is going to fail
				a, b := "c89959.example.org", "c2012306.example.org"
				if filterutil.FastHash(a) == filterutil.FastHash(b) {
					oi := (li + 1) % len(lists)
					ot := lists[oi].Text
					if ot != "" && !strings.HasSuffix(ot, "\n") {
						ot += "\n"
					}
					if oi == li {
						t += "10.66.1.1 " + a + "\n"
					} else {
						lists[oi].Text = ot + "10.66.1.1 " + a + "\n"
					}
					t += "10.66.1.2 " + b + "\n"
					twoKey[0] = &workload.Op{Kind: workload.OpDNS, Host: a, DNSType: 1}
					twoKey[1] = &workload.Op{Kind: workload.OpDNS, Host: b, DNSType: 1}
				}
			case kind == 0:
				pat := []string{"/ad^", "=1"}[ch.Intn("twokey.pat", 2)]
				url := map[string]string{"/ad^": "/ad/x.gif", "=1": "/path/AdS.js?x=1"}[pat]
				t += "|ws$domain=" + d + "\n" + pat + "$domain=" + x + "|" + d + "\n"
				h := hosts[ch.Intn("q.host", len(hosts))]
				twoKey[0] = &workload.Op{Kind: workload.OpMatchAll, URL: "https://" + h + url, Src: "https://" + x + "/page", Type: rules.TypeScript}
				twoKey[1] = &workload.Op{Kind: workload.OpMatchAll, URL: "https://" + h + url, Src: "https://" + d + "/page", Type: rules.TypeScript}
			default:
				t += "10.66.0.2 k2." + d + "\n10.66.0.1 k1." + x + " k2." + d + "\n"
				twoKey[0] = &workload.Op{Kind: workload.OpDNS, Host: "k1." + x, DNSType: 1}
				twoKey[1] = &workload.Op{Kind: workload.OpDNS, Host: "k2." + d, DNSType: 1}
			}
			lists[li].Text = t
			out.Probes["bases_with_a_rule_reachable_through_two_keys"]++
		}
	}
	allLines := planLines(lists)
	var hist []workload.Op
	pct := []int{70, 85, 93}[ch.Intn("hist.pct", 3)]
	for i := 0; i < maxOps; i++ {
		if i == 0 {
			ch.Begin("q")
		} else if !ch.More("q", pct) {
			break
		}
		switch x := ch.Intn("hist.repeat", 12); {
		case i > 0 && x >= 8:
			hist = append(hist, hist[ch.Intn("hist.which", len(hist))])
		case x == 0:
			// a reload while the engine stays in service
			hist = append(hist, workload.Op{Kind: workload.OpRescan})
		default:
			o := workload.GenOpFor(ch, hosts, opKinds, allLines)
			if o.Kind == workload.OpDNS && x == 1 {
				o = workload.Op{Kind: workload.OpDNS, Host: o.Host, Short: true}
			}
			hist = append(hist, o)
		}
		ch.End()
	}

	if twoKey[0] != nil {
		// first key right away, second key at the end (requests that go
		// through the second key in between are dropped: they would
		// materialise the neighbour)
		var kept []workload.Op
		for _, o := range hist {
			if !strings.Contains(o.Src, twoKey[1].Src) && o.Host != twoKey[1].Host {
				kept = append(kept, o)
			}
		}
		hist = append(append([]workload.Op{*twoKey[0]}, kept...), *twoKey[1])
	}
	// after the fault the tail of the history is asked again and again in some
	// runs: error counters, back-off and circuit breakers need many failures
	reps := []int{1, 1, 1, 1, 1, 1, 6, 40}[ch.Intn("c19.reps", 8)]
	// rarely: ONE big file-backed list and a flood that materialises every
	// rule of it before the fault (bounded caches, eviction), DNS engine only
	big := ch.Intn("c19.big", 40) == 39
	bigN := 0
	bigPartial := false
	inFlood := func(i int) bool { return !bigPartial || (uint32(i)*2654435761>>7)%4 != 0 }
	if big {
		bigN = []int{8500, 8500, 12000, 20000, 36000}[ch.Intn("c19.bigsize", 5)] + ch.Intn("c19.bign", 3000)
		if env.Thorough && ch.Intn("c19.huge", 4) == 3 {
			// beyond 64k entries
			bigN = 66000 + ch.Intn("c19.bign", 6000)
		}
		// or a list of 90-250 KiB of which the flood materialises only
		// three rules in four: after the fault the others are looked for
		// in the file, block after block, again and again
		if ch.Intn("c19.bigpartial", 3) == 2 {
			bigPartial = true
			bigN = 4000 + ch.Intn("c19.bign", 7000)
		}
		var b strings.Builder
		for i := 0; i < bigN; i++ {
			fmt.Fprintf(&b, "||b%d.example.org^\n", i)
		}
		l0 := lists[0]
		l0.Text = b.String()
		if !l0.File && !l0.Faulty {
			l0.File = true
		}
		lists = []disk.ListPlan{l0}
		hist = hist[:0]
		for i := 0; i < bigN; i += 83 {
			hist = append(hist, workload.Op{Kind: workload.OpDNS, Host: fmt.Sprintf("b%d.example.org", i), DNSType: 1})
			if bigPartial {
				// neighbours in the same block of the file
				hist = append(hist, workload.Op{Kind: workload.OpDNS, Host: fmt.Sprintf("b%d.example.org", i+1+i%5), DNSType: 1})
			}
		}
		reps = 1
		if bigPartial {
			reps = 2
		}
	}
	newEngines := func(s *filterlist.RuleStorage) *workload.Engines {
		if big {
			return &workload.Engines{Storage: s, DNS: urlfilter.NewDNSEngine(s)}
		}
		return workload.NewEngines(s)
	}

	base, err := disk.Build(lists, env.Dir, false)
	if err != nil {
		out.Invalid, out.InvalidReason = true, "build: "+err.Error()
		return out
	}
	defer base.Cleanup()

	// reference: the same history, fault-free, on its own storage
	var truths []*truth
	if m, ok := env.Memo["c19.seq.truths"]; ok {
		truths = m.([]*truth)
	} else {
		ref, err := base.Clone(false)
		if err != nil {
			out.Invalid, out.InvalidReason = true, "clone: "+err.Error()
			return out
		}
		perr := safely(func() {
			e := newEngines(ref.Storage)
			for i := range hist {
				truths = append(truths, computeTruth(e, &hist[i], !big))
			}
		})
		ref.Cleanup()
		if perr != "" {
			out.Invalid, out.InvalidReason = true, perr
			return out
		}
		if env.Memo != nil {
			env.Memo["c19.seq.truths"] = truths
		}
	}

	sub, err := base.Clone(true)
	if err != nil {
		out.Invalid, out.InvalidReason = true, "clone: "+err.Error()
		return out
	}
	defer sub.Cleanup()
	filterlist.VerifSetHooks(filterlist.VerifHooks{Yield: core.MainHooks()})
	defer filterlist.VerifSetHooks(filterlist.VerifHooks{})
	var e *workload.Engines
	P := map[rkey]bool{}
	if perr := safely(func() {
		e = newEngines(sub.Storage)
		// the flood: every rule of the big list is materialised and served
		for i := 0; i < bigN; i++ {
			if inFlood(i) {
				served(workload.Exec(e, &workload.Op{Kind: workload.OpDNS, Host: fmt.Sprintf("b%d.example.org", i), DNSType: 1}), P)
			}
		}
	}); perr != "" {
		out.Invalid, out.InvalidReason = true, perr
		return out
	}
	if big {
		out.Probes["big_list_runs"]++
		if bigPartial {
			out.Probes["big_list_runs_partly_materialised"]++
		}
		out.Probes["rules_materialised_by_floods"] += len(P)
	}
	inMem := inMemIDs(lists)
	copies := lineCopies(lists)
	faulted := false
	changed := 0
	var rendered []string
	h := uint64(0)
	sample := func() {
		if env.KeepTrace {
			out.Sample = map[string]any{"mode": "sequential history", "lists": renderPlans(lists), "history": rendered, "fault_plan": env.Params}
		}
	}
	firstFault := -1
	// C19 speaks about queries AFTER a list became unreadable.  A wrong
	// answer, a changed earlier result or a panic while every list is still
	// readable is the business of C13/C14 (and C11): the run is left to them.
	leave := func(what string) {
		out.Skipped = true
		out.Probes["anomaly_before_any_fault_left_to_C11_C13_C14:"+what]++
	}
	type keptRes struct {
		i     int
		res   *workload.Result
		canon string
	}
	var kept []keptRes
	ask := func(i int) bool {
		o := &hist[i]
		var res *workload.Result
		if perr := safely(func() { res = workload.Exec(e, o) }); perr != "" {
			if !faulted {
				leave("panic")
				return false
			}
			rendered = append(rendered, "query "+o.Key()+" -> PANIC")
			sample()
			out.Violation = &Violation{Class: "panic:" + opClass(o), Detail: fmt.Sprintf("query %d %s panicked (faulted=%t)\n%s", i, o.Key(), faulted, perr)}
			return false
		}
		var full string
		if perr := safely(func() { full = res.CanonFull() }); perr != "" {
			if !faulted {
				leave("panic")
				return false
			}
			sample()
			out.Violation = &Violation{Class: "panic:derived:" + opClass(o), Detail: fmt.Sprintf("evaluating the result of query %d %s panicked (faulted=%t)\n%s", i, o.Key(), faulted, perr)}
			return false
		}
		h = fnv(h, full)
		if len(rendered) < 120 {
			rendered = append(rendered, fmt.Sprintf("query %s -> %s", o.Key(), trunc(res.Canon(), 300)))
		}
		if !faulted {
			if full != truths[i].full {
				leave("answer")
				return false
			}
		} else {
			if full != truths[i].full {
				changed++
			}
			if class, detail := checkDegraded(o, res, truths[i], P, inMem, copies); class != "" {
				sample()
				out.Violation = &Violation{Class: class, Detail: fmt.Sprintf("query %d %s after fault plan %v\n%s\n got:        %s\n fault-free: %s", i, o.Key(), env.Params, detail, res.Canon(), truths[i].full)}
				return false
			}
		}
		served(res, P)
		// results handed out earlier must not change, fault or no fault
		for _, k := range kept {
			if now := k.res.Canon(); now != k.canon {
				if !faulted {
					leave("earlier-result")
					return false
				}
				sample()
				out.Violation = &Violation{Class: "earlier-result-changed:" + opClass(&hist[k.i]), Detail: fmt.Sprintf("after query %d %s (faulted=%t) the result returned earlier for query %d %s changed\n was: %s\n now: %s", i, o.Key(), faulted, k.i, hist[k.i].Key(), k.canon, now)}
				return false
			}
		}
		kept = append(kept, keptRes{i, res, res.Canon()})
		if len(kept) > 8 {
			kept = kept[1:]
		}
		return true
	}
	for i := range hist {
		for _, f := range [][3]int{{fp.at, fp.kind, fp.target}, {fp.at2, fp.kind2, fp.target2}} {
			if f[0] == i && f[1] < disk.NumFaultKinds && f[2] < len(sub.Lists) && sub.Applicable(f[1], f[2]) {
				if err := sub.Inject(f[1], f[2], env.Dir, fp.n); err != nil {
					out.Invalid, out.InvalidReason = true, "inject: "+err.Error()
					return out
				}
				if !faulted {
					firstFault = i
				}
				faulted = true
				out.Faults[faultName(f[1])]++
				rendered = append(rendered, fmt.Sprintf("FAULT %s on list #%d", faultName(f[1]), f[2]))
			}
		}
		if !ask(i) {
			return out
		}
	}
	if faulted && reps > 1 {
		rendered = append(rendered, fmt.Sprintf("the %d queries after the fault are asked %d more times", len(hist)-firstFault, reps-1))
		for r := 1; r < reps; r++ {
			for i := firstFault; i < len(hist); i++ {
				if !ask(i) {
					return out
				}
			}
		}
		out.Probes["post_fault_tail_repetitions"] += reps - 1
	}
	out.Steps = len(hist)
	out.RunHash = fnv(h, fmt.Sprint(fp))
	out.Nontrivial = changed > 0
	out.Probes["post_fault_answers_degraded"] = changed
	if faulted && changed == 0 {
		out.Probes["fault_plans_with_no_visible_effect"] = 1
	}
	if fp.at < 0 {
		instants := len(hist)
		if big {
			// re-running the flood for every instant is too dear: the fault
			// lands right after the flood
			instants = 1
		}
		out.FaultPlans = enumeratePlans(sub, instants)
		out.Probes["seq_bases"] = 1
	}
	out.States = append(out.States, uint64(fp.at+1)<<20^uint64(fp.kind)<<8^uint64(fp.target)<<4^uint64(len(hist)))
	sample()
	return out
}

type concRec struct {
	op       int
	inv, ret int
	res      *workload.Result
}

func runC19Conc(ch *core.Chooser, env *Env, out *Outcome) *Outcome {
	fp := readFaultPlan(env)
	p := drawConcPlan(ch, env, 0, 6, workload.AllKinds)
	drawFaultLists(ch, p.lists)

	base, err := disk.Build(p.lists, env.Dir, false)
	if err != nil {
		out.Invalid, out.InvalidReason = true, "build: "+err.Error()
		return out
	}
	defer base.Cleanup()

	var truths []*truth
	var total int
	if m, ok := env.Memo["c19.conc.truths"]; ok {
		truths = m.([]*truth)
		total = env.Memo["c19.conc.total"].(int)
	} else {
		ref, err := base.Clone(false)
		if err != nil {
			out.Invalid, out.InvalidReason = true, "clone: "+err.Error()
			return out
		}
		cnt, restore := countingHooks()
		var seq []int
		perr := safely(func() {
			e := workload.NewEngines(ref.Storage)
			for i := range p.pool {
				before := cnt()
				truths = append(truths, computeTruth(e, &p.pool[i], true))
				seq = append(seq, cnt()-before)
			}
		})
		restore()
		ref.Cleanup()
		if perr != "" {
			out.Invalid, out.InvalidReason = true, perr
			return out
		}
		for _, ops := range p.tasks {
			for _, o := range ops {
				total += seq[o] + 1
			}
		}
		if env.Memo != nil {
			env.Memo["c19.conc.truths"] = truths
			env.Memo["c19.conc.total"] = total
		}
	}
	p.cfg = core.DrawSchedConfig(ch, total)
	p.cfg.StepCap = 50*total + 1000

	sub, err := base.Clone(true)
	if err != nil {
		out.Invalid, out.InvalidReason = true, "clone: "+err.Error()
		return out
	}
	defer sub.Cleanup()
	inMem := inMemIDs(p.lists)
	copies := lineCopies(p.lists)
	warmServed := map[rkey]bool{}
	var e *workload.Engines
	if perr := safely(func() {
		e = workload.NewEngines(sub.Storage)
		for _, w := range p.warm {
			served(workload.Exec(e, &p.pool[w]), warmServed)
		}
	}); perr != "" {
		out.Invalid, out.InvalidReason = true, perr
		return out
	}

	recs := make([][]concRec, len(p.tasks))
	bodies := make([]func(*core.TaskCtx), len(p.tasks))
	for i := range p.tasks {
		ops := p.tasks[i]
		recs[i] = make([]concRec, len(ops))
		bodies[i] = func(t *core.TaskCtx) {
			for j, o := range ops {
				r := &recs[i][j]
				r.op, r.inv, r.ret = o, t.Now(), -1
				r.res = workload.Exec(e, &p.pool[o])
				r.ret = t.Now()
				t.Yield()
			}
		}
	}
	// Each fault is a TASK of its own (an application thread that closes the
	// storage or swaps a handle): the scheduler holds it back until its
	// instant and then runs it at once.  If the code under test takes locks
	// inside Close, the fault task parks at those points like any other task
	// instead of blocking the simulator.
	injectedAt, injected2At := -1, -1
	var injectErr error
	s := &core.Sched{Gate: env.NewGate(), LockMode: env.LockMode, Ch: ch, Cfg: p.cfg, KeepTrace: env.KeepTrace,
		Gate2: map[int]func(int) bool{}, Urgent: map[int]bool{}}
	faultDue := false // scheduler side only
	s.StateExtra = func() uint64 {
		if faultDue {
			return 0x9e37
		}
		return 0
	}
	// everything below that is written by a fault task is read only after
	// the run (ordered by the task's exit); the scheduler side keeps its own
	inflightNow := 0
	s.OnDecision = func(step, inflight int) { inflightNow = inflight }
	fired := make([]int, 0, 2)
	type fault struct {
		at, kind, target int
		done             *int
	}
	var faults []fault
	for _, f := range []fault{{fp.at, fp.kind, fp.target, &injectedAt}, {fp.at2, fp.kind2, fp.target2, &injected2At}} {
		if f.at >= 0 && f.kind < disk.NumFaultKinds && f.target < len(sub.Lists) && sub.Applicable(f.kind, f.target) {
			faults = append(faults, f)
		}
	}
	if len(faults) > 0 {
		// ONE fault task performs the faults of the plan one after the other
		// (one application thread), parking in between until the next one is
		// due; the gate below is evaluated by the scheduler only
		id := len(bodies)
		noted := 0
		s.Urgent[id] = true
		s.Gate2[id] = func(step int) bool {
			k := s.Released(id) // faults already started
			if k >= len(faults) {
				return true
			}
			f := faults[k]
			if step < f.at {
				return false
			}
			// a handle swap takes the list's own mutex, like an
			// application would: while a parked reader holds it the fault
			// waits
			if !sub.CanInject(f.kind, f.target) {
				out.Probes["fault_deferred_by_held_list_mutex"]++
				return false
			}
			if noted == k {
				noted++
				faultDue = true
				fired = append(fired, f.kind)
				if inflightNow > 0 {
					out.Probes["faults_landed_with_a_query_in_flight"]++
				}
			}
			return true
		}
		bodies = append(bodies, func(t *core.TaskCtx) {
			for i, f := range faults {
				if i > 0 {
					t.Yield()
				}
				*f.done = t.Now()
				if err := sub.Inject(f.kind, f.target, env.Dir, fp.n); err != nil {
					injectErr = err
				}
			}
		})
	}
	y, n := s.Hooks()
	filterlist.VerifSetHooks(filterlist.VerifHooks{Yield: y, Note: n})
	res := s.Run(bodies)
	filterlist.VerifSetHooks(filterlist.VerifHooks{})
	if injectErr != nil {
		out.Invalid, out.InvalidReason = true, "inject: "+injectErr.Error()
		return out
	}
	for _, k := range fired {
		out.Faults[faultName(k)]++
	}

	out.Steps = res.Steps
	out.States = res.StateHashes
	out.RunHash = fnv(res.TraceHash, fmt.Sprint(fp))
	addProbes(out, &res.Probes)
	if env.KeepTrace {
		out.Sample = p.render()
		out.Sample["mode"] = "concurrent schedule"
		out.Sample["steps"] = res.Steps
		out.Sample["fault_plan"] = env.Params
		out.Sample["fault_injected_at_step"] = injectedAt
		out.Sample["trace"] = renderTrace(res.Trace, 300)
	}
	// C19 speaks about queries after a list became unreadable: a deadlock,
	// panic or wrong answer without any injected fault is left to C14.
	leave := func(what string) *Outcome {
		out.Skipped = true
		out.Probes["anomaly_before_any_fault_left_to_C11_C13_C14:"+what]++
		return out
	}
	if res.FreeRunDeadlock {
		if injectedAt < 0 {
			return leave("deadlock")
		}
		out.Violation = &Violation{Class: "deadlock", Detail: fmt.Sprintf("after %d scheduled steps a task blocked in a lock held by a parked task; the scheduler then let every task run freely (a real, uncontrolled execution) and all unfinished tasks ended up blocked on locks for ever", res.Steps)}
		return out
	}
	if res.SpecBlocked || res.SpecSkipped || res.UnhookedBlock {
		out.Skipped = true
		if res.Leaked {
			out.Probes["tasks_left_parked_for_ever_race_build"]++
		}
		switch {
		case res.UnhookedBlock:
			out.Probes["released_task_blocked_on_a_lock_without_scheduling_point_run_abandoned"]++
		case res.SpecBlocked:
			out.Probes["speculative_release_blocked_run_abandoned"]++
		default:
			out.Probes["speculative_run_not_executed_in_this_mode"]++
		}
		return out
	}
	if injectedAt < 0 && (len(res.Panics) > 0 || res.Deadlock || res.StepCap) {
		return leave("panic-or-no-progress")
	}
	switch {
	case len(res.Panics) > 0:
		out.Violation = &Violation{Class: "panic:task", Detail: fmt.Sprintf("fault plan %v (injected at step %d)\n%s", env.Params, injectedAt, res.Panics[0])}
		return out
	case res.Deadlock:
		out.Violation = &Violation{Class: "deadlock", Detail: fmt.Sprintf("fault plan %v: no task enabled after %d steps", env.Params, res.Steps)}
		return out
	case res.StepCap:
		out.Violation = &Violation{Class: "no-progress", Detail: fmt.Sprintf("fault plan %v: twice the step cap %d exceeded, the second half under a fair least-recently-run schedule", env.Params, p.cfg.StepCap)}
		return out
	}

	// flatten and order by return time, so that P can be built incrementally
	var all []*concRec
	for i := range recs {
		for j := range recs[i] {
			all = append(all, &recs[i][j])
		}
	}
	sort.SliceStable(all, func(a, b int) bool { return all[a].ret < all[b].ret })
	changed := 0
	for _, r := range all {
		o := &p.pool[r.op]
		t := truths[r.op]
		var full string
		if perr := safely(func() { full = r.res.CanonFull() }); perr != "" {
			if injectedAt < 0 || r.ret < injectedAt {
				return leave("panic")
			}
			out.Violation = &Violation{Class: "panic:derived:" + opClass(o), Detail: fmt.Sprintf("fault plan %v: evaluating the result of %s panicked\n%s", env.Params, o.Key(), perr)}
			return out
		}
		out.RunHash = fnv(out.RunHash, full)
		if injectedAt < 0 || r.ret < injectedAt {
			if full != t.full {
				return leave("answer")
			}
			continue
		}
		if full != t.full {
			changed++
		}
		// P: rules served by queries that had returned before this one was
		// invoked (the real-time order of linearizability); overlapping
		// queries contribute nothing
		P := map[rkey]bool{}
		for k := range warmServed {
			P[k] = true
		}
		for _, q := range all {
			if q.ret >= 0 && q.ret < r.inv {
				served(q.res, P)
			}
		}
		if class, detail := checkDegraded(o, r.res, t, P, inMem, copies); class != "" {
			out.Violation = &Violation{Class: class, Detail: fmt.Sprintf("query %s invoked at step %d, returned at step %d; fault plan %v injected at step %d\n%s\n got:        %s\n fault-free: %s", o.Key(), r.inv, r.ret, env.Params, injectedAt, detail, r.res.Canon(), t.full)}
			return out
		}
	}
	out.Probes["post_fault_answers_degraded"] = changed
	out.Nontrivial = changed > 0 || out.Probes["faults_landed_with_a_query_in_flight"] > 0
	if fp.at < 0 {
		out.FaultPlans = enumeratePlans(sub, res.Steps)
		out.Probes["conc_bases"] = 1
	}
	return out
}
