// Package disk is the simulated storage side: real list files in a scratch
// directory (so that FileRuleList runs its real Seek/Read code against the
// kernel), fault actions on them, a fault-injecting RuleList stub and a
// reader with a seeded read-size schedule.
package disk

import (
	"errors"
	"fmt"
	"io"
	"os"
	"path/filepath"
	"sync"

	"github.com/AdguardTeam/urlfilter/filterlist"
	"github.com/AdguardTeam/urlfilter/rules"

	"verifsim/core"
)

// ListPlan describes one rule list of a run.
type ListPlan struct {
	ID             int
	Text           string
	File           bool // file-backed (else in-memory)
	BufSize        int  // read-buffer knob for file-backed lists; 0 = the library's own constructor and default
	IgnoreCosmetic bool
	Faulty         bool // wrap in FaultyRuleList
	// ShareKey: file-backed lists with the same non-empty key (and the same
	// text) are opened on ONE path, each through its own NewFileRuleList.
	ShareKey string
}

// Built is a storage and handles on its parts.
type Built struct {
	Storage *filterlist.RuleStorage
	Lists   []filterlist.RuleList
	Files   []*filterlist.FileRuleList // nil entries for non-file lists
	Faulty  []*FaultyRuleList          // nil entries for unwrapped lists
	paths   []string
	mu      sync.Mutex // protects extra (written by a fault task, read by Cleanup)
	extra   []*os.File
	plans   []ListPlan
	clone   bool
}

var fileSeq int

// Build materialises plans under dir.  With forceString every list is
// in-memory and unwrapped: the reference configuration.
func Build(plans []ListPlan, dir string, forceString bool) (*Built, error) {
	b := &Built{plans: plans}
	shared := map[string]string{}
	for _, p := range plans {
		var l filterlist.RuleList
		var fl *filterlist.FileRuleList
		var fy *FaultyRuleList
		if p.File && !forceString {
			path := ""
			if p.ShareKey != "" {
				path = shared[p.ShareKey]
			}
			if path == "" {
				fileSeq++
				path = filepath.Join(dir, fmt.Sprintf("list-%d-%d.txt", os.Getpid(), fileSeq))
				if err := os.WriteFile(path, []byte(p.Text), 0o600); err != nil {
					return nil, err
				}
				if p.ShareKey != "" {
					shared[p.ShareKey] = path
				}
			}
			b.paths = append(b.paths, path)
			if p.BufSize == 0 {
				var err error
				if fl, err = filterlist.NewFileRuleList(p.ID, path, p.IgnoreCosmetic); err != nil {
					return nil, err
				}
			} else {
				f, err := os.Open(path)
				if err != nil {
					return nil, err
				}
				fl = filterlist.VerifNewFileRuleList(p.ID, f, p.IgnoreCosmetic, p.BufSize)
			}
			l = fl
		} else {
			l = &filterlist.StringRuleList{ID: p.ID, RulesText: p.Text, IgnoreCosmetic: p.IgnoreCosmetic}
		}
		if p.Faulty && !forceString {
			fy = &FaultyRuleList{Inner: l}
			l = fy
		}
		b.Lists = append(b.Lists, l)
		b.Files = append(b.Files, fl)
		b.Faulty = append(b.Faulty, fy)
	}
	s, err := filterlist.NewRuleStorage(b.Lists)
	if err != nil {
		b.Cleanup()
		return nil, err
	}
	b.Storage = s
	return b, nil
}

// Clone builds a NEW storage with new list objects (and new descriptors) over
// the same bytes: file-backed lists reopen the files of b.  This is the
// "fresh engine" configuration: same plan, no history.
func (b *Built) Clone(withFaulty bool) (*Built, error) {
	c := &Built{plans: b.plans, clone: true, paths: b.paths}
	fi := 0
	for i, p := range b.plans {
		var l filterlist.RuleList
		var fl *filterlist.FileRuleList
		if b.Files[i] != nil {
			path := b.paths[fi]
			fi++
			if p.BufSize == 0 {
				var err error
				if fl, err = filterlist.NewFileRuleList(p.ID, path, p.IgnoreCosmetic); err != nil {
					return nil, err
				}
			} else {
				f, err := os.Open(path)
				if err != nil {
					return nil, err
				}
				fl = filterlist.VerifNewFileRuleList(p.ID, f, p.IgnoreCosmetic, p.BufSize)
			}
			l = fl
		} else {
			l = &filterlist.StringRuleList{ID: p.ID, RulesText: p.Text, IgnoreCosmetic: p.IgnoreCosmetic}
		}
		var fy *FaultyRuleList
		if p.Faulty && withFaulty {
			fy = &FaultyRuleList{Inner: l}
			l = fy
		}
		c.Lists = append(c.Lists, l)
		c.Files = append(c.Files, fl)
		c.Faulty = append(c.Faulty, fy)
	}
	s, err := filterlist.NewRuleStorage(c.Lists)
	if err != nil {
		c.Cleanup()
		return nil, err
	}
	c.Storage = s
	return c, nil
}

// Cleanup closes and removes everything the build created.
func (b *Built) Cleanup() {
	for _, f := range b.Files {
		// the File field may have been swapped by a fault task under the
		// list's mutex; if a task that was left parked still holds it, the
		// descriptor is simply not closed
		if f != nil && f.TryLock() {
			file := f.File
			f.Unlock()
			if file != nil {
				_ = file.Close()
			}
		}
	}
	b.mu.Lock()
	for _, f := range b.extra {
		_ = f.Close()
	}
	b.mu.Unlock()
	if !b.clone {
		for _, p := range b.paths {
			_ = os.Remove(p)
		}
	}
}

// Fault kinds.  All are applied by the scheduler while every task is parked.
const (
	FStorageClose  = iota // RuleStorage.Close()
	FFileClose            // one list: File.Close()
	FSwapClosed           // one list: File replaced by an already closed descriptor (Seek fails)
	FSwapDir              // one list: File replaced by a directory descriptor (Seek ok, Read fails with EISDIR)
	FStubPermanent        // FaultyRuleList: every retrieval fails from now on
	FStubTransient        // FaultyRuleList: the next N retrievals fail, then it heals
	NumFaultKinds
)

// FaultNames names the fault kinds in evidence.
var FaultNames = []string{"storage_close", "file_close", "swap_closed_fd", "swap_dir_fd", "stub_permanent", "stub_transient"}

// Applicable reports whether kind k can hit list i.
func (b *Built) Applicable(k, i int) bool {
	switch k {
	case FStorageClose:
		return i == 0
	case FFileClose, FSwapClosed, FSwapDir:
		return b.Files[i] != nil
	default:
		return b.Faulty[i] != nil
	}
}

// CanInject reports whether fault k can be applied to list i right now: the
// handle-swapping kinds assign the File field under the list's own mutex, as
// an application would, so they have to wait while a parked reader holds it.
func (b *Built) CanInject(k, i int) bool {
	if k == FSwapClosed || k == FSwapDir {
		l := b.Files[i]
		if !l.TryLock() {
			return false
		}
		l.Unlock()
	}
	return true
}

// Inject applies fault k to list i (ignored for FStorageClose).  dir is a
// directory whose descriptor is used for FSwapDir.
func (b *Built) Inject(k, i int, dir string, n int) error {
	switch k {
	case FStorageClose:
		_ = b.Storage.Close()
	case FFileClose:
		_ = b.Files[i].File.Close()
	case FSwapClosed:
		f, err := os.Open(b.paths[0])
		if err != nil {
			return err
		}
		_ = f.Close()
		l := b.Files[i]
		l.Lock()
		old := l.File
		l.File = f
		l.Unlock()
		b.mu.Lock()
		b.extra = append(b.extra, old)
		b.mu.Unlock()
	case FSwapDir:
		f, err := os.Open(dir)
		if err != nil {
			return err
		}
		l := b.Files[i]
		l.Lock()
		old := l.File
		l.File = f
		l.Unlock()
		b.mu.Lock()
		b.extra = append(b.extra, old, f)
		b.mu.Unlock()
	case FStubPermanent:
		b.Faulty[i].set(-1)
	case FStubTransient:
		b.Faulty[i].set(n)
	}
	return nil
}

// ErrInjected is what the stub returns while a fault is active.
var ErrInjected = errors.New("verifsim: injected read failure")

// FaultyRuleList is a STUB: an implementation of the public
// filterlist.RuleList interface that wraps a real list and fails retrievals
// while a fault is active.  Engines accept any RuleList, so this is a seam the
// code already has.
type FaultyRuleList struct {
	Inner filterlist.RuleList
	// failures left: -1 = permanent, 0 = healthy, n>0 = the next n fail
	left   int
	Failed int
}

//go:norace
func (l *FaultyRuleList) set(n int) { l.left = n }

//go:norace
func (l *FaultyRuleList) fail() bool {
	switch {
	case l.left < 0:
		l.Failed++
		return true
	case l.left > 0:
		l.left--
		l.Failed++
		return true
	}
	return false
}

// Active reports whether the stub is currently failing.
//
//go:norace
func (l *FaultyRuleList) Active() bool { return l.left != 0 }

func (l *FaultyRuleList) GetID() int                          { return l.Inner.GetID() }
func (l *FaultyRuleList) NewScanner() *filterlist.RuleScanner { return l.Inner.NewScanner() }
func (l *FaultyRuleList) Close() error                        { return l.Inner.Close() }
func (l *FaultyRuleList) RetrieveRule(idx int) (rules.Rule, error) {
	if l.fail() {
		return nil, ErrInjected
	}
	return l.Inner.RetrieveRule(idx)
}

// ChunkReader is an io.Reader over a byte slice whose every Read returns
// between 1 and Max bytes, the size drawn from the Chooser: the simulated
// read schedule of a stream.  It never returns (0, nil): os.File cannot, and
// the retrieval reader is only ever fed an os.File.
type ChunkReader struct {
	Data []byte
	Pos  int
	Max  int
	Ch   *core.Chooser
	// probes
	Reads, SplitCRLF, SplitUTF8 int
}

func (r *ChunkReader) Read(p []byte) (int, error) {
	if r.Pos >= len(r.Data) {
		return 0, io.EOF
	}
	if len(p) == 0 {
		return 0, nil
	}
	max := r.Max
	if max > len(p) {
		max = len(p)
	}
	if rem := len(r.Data) - r.Pos; max > rem {
		max = rem
	}
	n := 1 + r.Ch.Intn("chunk.size", max)
	copy(p, r.Data[r.Pos:r.Pos+n])
	r.Pos += n
	r.Reads++
	if r.Pos < len(r.Data) {
		if r.Data[r.Pos-1] == '\r' && r.Data[r.Pos] == '\n' {
			r.SplitCRLF++
		}
		if r.Data[r.Pos]&0xC0 == 0x80 {
			r.SplitUTF8++
		}
	}
	return n, nil
}
