package workload

import (
	"fmt"
	"net/netip"
	"strings"

	"github.com/AdguardTeam/urlfilter"
	"github.com/AdguardTeam/urlfilter/filterlist"
	"github.com/AdguardTeam/urlfilter/rules"

	"verifsim/core"
)

// Op kinds.
const (
	OpDNS = iota
	OpWeb
	OpMatchAll
	OpMatch
	OpCosmetic
	// OpRescan is not a query: the storage is scanned to the end once more
	// and a second DNS engine is built over it and dropped (what a reload
	// does while the old engine is still in service).
	OpRescan
	NumOpKinds
)

var opKindNames = []string{"dns", "web", "matchall", "match", "cosmetic", "rescan"}

// Op is one query.
type Op struct {
	Kind int

	// OpDNS
	Host    string
	DNSType uint16
	Client  string
	IP      string
	Tags    int // index into TagSets
	// Answer marks the DNS request as one made while filtering a response
	// (DNSRequest.Answer; the library does not look at it today).
	Answer bool

	// OpWeb / OpMatchAll / OpMatch
	URL, Src string
	Type     rules.RequestType
	// HostnameReq makes OpMatchAll/OpMatch use a hostname request carrying
	// the DNS-side fields, i.e. what DNSEngine builds internally.
	HostnameReq bool
	// WebClient makes a URL-style request carry the client fields (Client,
	// IP, Tags) too: rules.Request has them for every kind of request.
	WebClient bool

	// OpCosmetic (Host is reused)
	CosOpt rules.CosmeticOption

	// Short makes an OpDNS without client fields go through the
	// DNSEngine.Match(hostname) shortcut.
	Short bool
}

// Key identifies the request (memoisation of the reference answer).
func (o *Op) Key() string {
	switch o.Kind {
	case OpDNS:
		if o.Short {
			return fmt.Sprintf("dnsmatch|%s", o.Host)
		}
		if o.Answer {
			return fmt.Sprintf("dns|%s|%d|%s|%s|%d|answer", o.Host, o.DNSType, o.Client, o.IP, o.Tags)
		}
		return fmt.Sprintf("dns|%s|%d|%s|%s|%d", o.Host, o.DNSType, o.Client, o.IP, o.Tags)
	case OpRescan:
		return "rescan"
	case OpCosmetic:
		return fmt.Sprintf("cos|%s|%d", o.Host, o.CosOpt)
	default:
		if o.HostnameReq {
			return fmt.Sprintf("%s|h|%s|%d|%s|%s|%d", opKindNames[o.Kind], o.Host, o.DNSType, o.Client, o.IP, o.Tags)
		}
		if o.WebClient {
			return fmt.Sprintf("%s|%s|%s|%d|%s|%s|%d", opKindNames[o.Kind], o.URL, o.Src, o.Type, o.Client, o.IP, o.Tags)
		}
		return fmt.Sprintf("%s|%s|%s|%d", opKindNames[o.Kind], o.URL, o.Src, o.Type)
	}
}

func (o *Op) String() string { return o.Key() }

// SrcPaths are the pages a sub-request may come from.
var SrcPaths = []string{"/page", "/checkout/", "/news/today", "/", "/app?debug=1", "/app?debug=0", "/app#top"}

// MutateWebOp returns a copy of a URL-style op that differs from o in exactly
// one of: content type, URL path, source page (same source host).  Per-page
// and per-type state that leaks between the sub-requests of one site shows on
// such neighbours.
func MutateWebOp(ch *core.Chooser, o Op) Op {
	n := o
	switch ch.Intn("q.mutweb", 5) {
	case 3:
		// the same URL in another case (only $match-case rules may tell)
		rest := strings.SplitN(o.URL, "://", 2)
		if len(rest) == 2 {
			if i := strings.IndexByte(rest[1], '/'); i >= 0 {
				path := rest[1][i:]
				if strings.ToLower(path) != path {
					path = strings.ToLower(path)
				} else {
					path = strings.ToUpper(path)
				}
				n.URL = rest[0] + "://" + rest[1][:i] + path
			}
		}
	case 4:
		// the same request from another client
		if !o.WebClient {
			n.WebClient = true
			n.Client, n.IP, n.Tags = ClientNames[1+ch.Intn("q.mutv", len(ClientNames)-1)], "", 0
		} else {
			c := MutateOneField(ch, Op{Kind: OpMatchAll, HostnameReq: true, Client: o.Client, IP: o.IP, Tags: o.Tags})
			n.Client, n.IP, n.Tags = c.Client, c.IP, c.Tags
		}
	case 0:
		cur := 0
		for i, t := range reqTypes {
			if t == o.Type {
				cur = i
			}
		}
		n.Type = reqTypes[(cur+1+ch.Intn("q.mutv", len(reqTypes)-1))%len(reqTypes)]
	case 1:
		// same scheme://host, another path
		rest := strings.SplitN(o.URL, "://", 2)
		if len(rest) == 2 {
			host := rest[1]
			if i := strings.IndexByte(host, '/'); i >= 0 {
				host = host[:i]
			}
			n.URL = rest[0] + "://" + host + webPaths[ch.Intn("q.path", len(webPaths))]
		}
	default:
		if o.Src != "" {
			rest := strings.SplitN(o.Src, "://", 2)
			host := rest[len(rest)-1]
			if i := strings.IndexByte(host, '/'); i >= 0 {
				host = host[:i]
			}
			cur := 0
			for i, sp := range SrcPaths {
				if strings.HasSuffix(o.Src, host+sp) {
					cur = i
				}
			}
			n.Src = "https://" + host + SrcPaths[(cur+1+ch.Intn("q.mutv", len(SrcPaths)-1))%len(SrcPaths)]
		} else {
			n.Type = reqTypes[ch.Intn("q.type", len(reqTypes))]
		}
	}
	return n
}

var reqTypes = []rules.RequestType{rules.TypeDocument, rules.TypeScript, rules.TypeImage, rules.TypeSubdocument, rules.TypeXmlhttprequest, rules.TypeOther,
	rules.TypeScript, rules.TypeImage, rules.TypeStylesheet, rules.TypeObject, rules.TypeMedia, rules.TypeFont, rules.TypeWebsocket, rules.TypePing}

// queryHost draws a host name to ask about: mostly from the run's alphabet,
// sometimes a subdomain of it, sometimes unrelated.
func queryHost(ch *core.Chooser, hosts []string) string {
	h := hosts[ch.Intn("q.host", len(hosts))]
	switch ch.Intn("q.hostform", 24) {
	case 0, 1, 2:
		return "www." + h
	case 3, 4, 5:
		return "unrelated.invalid"
	// rare request shapes
	case 6:
		return strings.ToUpper(h)
	case 7:
		return h + "."
	case 8:
		return "192.0.2.55"
	case 9:
		return "2001:db8::5"
	case 10:
		return strings.Repeat("a", 60) + "." + h
	case 11:
		return "_dmarc." + h
	case 12:
		return []string{"localhost", "", h + ":8080"}[ch.Intn("q.oddhost", 3)]
	case 13:
		// not ASCII
		return []string{"b\u00fccher.example.org", "\u043f\u0440\u0438\u043c\u0435\u0440.\u0440\u0444", "caf\u00e9." + h, "B\u00dcCHER.example.org"}[ch.Intn("q.idnhost", 4)]
	}
	return h
}

// GenOp draws one query.  kinds is the allowed op-kind mix.
func GenOp(ch *core.Chooser, hosts []string, kinds []int) Op {
	k := kinds[ch.Intn("q.kind", len(kinds))]
	o := Op{Kind: k}
	switch k {
	case OpDNS:
		genDNSFields(ch, hosts, &o)
	case OpCosmetic:
		o.Host = queryHost(ch, hosts)
		o.CosOpt = []rules.CosmeticOption{rules.CosmeticOptionAll, rules.CosmeticOptionCSS, rules.CosmeticOptionGenericCSS | rules.CosmeticOptionCSS, rules.CosmeticOptionNone, rules.CosmeticOptionJS}[ch.Intn("q.cosopt", 5)]
	default:
		if k != OpWeb && ch.Intn("q.hostnamereq", 3) == 0 {
			o.HostnameReq = true
			genDNSFields(ch, hosts, &o)
			break
		}
		scheme := []string{"http://", "https://", "ws://", "https://", "wss://", "HTTPS://"}[ch.Intn("q.scheme", 6)]
		o.URL = scheme + queryHost(ch, hosts) + webPaths[ch.Intn("q.path", len(webPaths))]
		if ch.Intn("q.longurl", 40) == 39 {
			// longer than the 4 KiB the library looks at
			o.URL += "?pad=" + strings.Repeat("x", 4200) + "/ads.js"
		}
		if ch.Intn("q.hassrc", 2) == 0 {
			o.Src = "https://" + queryHost(ch, hosts) + SrcPaths[ch.Intn("q.srcpath", len(SrcPaths))]
		}
		o.Type = reqTypes[ch.Intn("q.type", len(reqTypes))]
		if ch.Intn("q.webclient", 8) == 7 {
			o.WebClient = true
			o.Client = ClientNames[ch.Intn("q.client", len(ClientNames))]
			o.IP = ClientIPs[ch.Intn("q.ip", len(ClientIPs))]
			o.Tags = ch.Intn("q.tags", len(TagSets))
		}
	}
	return o
}

// GenOpFor draws a query like GenOp, but half of the time DERIVES it from a
// random line of the lists: a cosmetic lookup for the host of an element-hiding
// rule or exception, a sub-request from a page named in a $domain modifier, a
// DNS query for a name in a hosts line, a request for the host of a ||host^
// rule.  Requests that concern the rules at hand are what makes buckets,
// exceptions and modifiers actually take part in answers.
func GenOpFor(ch *core.Chooser, hosts []string, kinds []int, lines []string) Op {
	if len(lines) == 0 || ch.Intn("q.derive", 2) == 0 {
		return GenOp(ch, hosts, kinds)
	}
	l := strings.TrimSpace(lines[ch.Intn("q.line", len(lines))])
	allowed := func(k int) bool {
		for _, x := range kinds {
			if x == k {
				return true
			}
		}
		return false
	}
	firstHost := func(list string) string {
		for _, d := range strings.FieldsFunc(list, func(r rune) bool { return r == ',' || r == '|' }) {
			if d = strings.TrimPrefix(d, "~"); d != "" {
				return d
			}
		}
		return hosts[0]
	}
	o := GenOp(ch, hosts, kinds)
	switch {
	case strings.HasPrefix(l, "!") || l == "" || l == "#" || strings.HasPrefix(l, "# "):
		return o
	case strings.Contains(l, "#@#") || strings.Contains(l, "##"):
		if !allowed(OpCosmetic) {
			return o
		}
		i := strings.Index(l, "#")
		h := hosts[ch.Intn("q.host", len(hosts))]
		if i > 0 {
			h = firstHost(l[:i])
			if strings.HasSuffix(h, ".*") {
				h = strings.TrimSuffix(h, "*") + []string{"com", "co.uk", "uk", "org"}[ch.Intn("q.srcsuffix", 4)]
			}
		}
		return Op{Kind: OpCosmetic, Host: h, CosOpt: []rules.CosmeticOption{rules.CosmeticOptionAll, rules.CosmeticOptionAll, rules.CosmeticOptionCSS}[ch.Intn("q.cosopt", 3)]}
	case strings.Contains(l, "domain="):
		if !allowed(OpWeb) {
			return o
		}
		v := l[strings.Index(l, "domain=")+len("domain="):]
		if j := strings.IndexByte(v, ','); j >= 0 {
			v = v[:j]
		}
		src := firstHost(v)
		if ds := strings.FieldsFunc(v, func(r rune) bool { return r == '|' }); len(ds) > 1 {
			// any of the permitted domains, not always the first
			if d := strings.TrimPrefix(ds[ch.Intn("q.whichdomain", len(ds))], "~"); d != "" {
				src = d
			}
		}
		if strings.HasSuffix(src, ".*") {
			// $domain=name.* : the page is on name.<some public suffix>
			src = []string{"", "www."}[ch.Intn("q.srcwww", 2)] + strings.TrimSuffix(src, "*") + []string{"co.uk", "uk", "com", "com.au", "org"}[ch.Intn("q.srcsuffix", 5)]
		}
		k := OpWeb
		if allowed(OpMatchAll) && ch.Intn("q.derivekind", 3) == 2 {
			k = OpMatchAll
		}
		scheme, path := "https://", webPaths[ch.Intn("q.path", len(webPaths))]
		if ch.Intn("q.patdirected", 2) == 1 {
			// a URL that the rule's (short) pattern accepts
			pat := strings.TrimPrefix(l, "@@")
			if j := strings.IndexByte(pat, '$'); j >= 0 {
				pat = pat[:j]
			}
			switch {
			case strings.HasPrefix(pat, "/ad^"):
				path = []string{"/ad/x.gif", "/ad?slot=1"}[ch.Intn("q.patpath", 2)]
			case strings.HasPrefix(pat, "=1"):
				path = "/path/AdS.js?x=1"
			case strings.HasPrefix(pat, "|ws"):
				scheme = "ws://"
			case strings.HasPrefix(pat, "/") && !strings.ContainsAny(pat, "*^|"):
				path = pat
			}
		}
		return Op{Kind: k, URL: scheme + queryHost(ch, hosts) + path,
			Src: "https://" + src + SrcPaths[ch.Intn("q.srcpath", len(SrcPaths))], Type: reqTypes[ch.Intn("q.type", len(reqTypes))]}
	case len(l) > 0 && (l[0] >= '0' && l[0] <= '9' || l[0] == ':') && strings.ContainsAny(l, " \t"):
		f := strings.Fields(l)
		if len(f) >= 2 && allowed(OpDNS) {
			o = Op{Kind: OpDNS}
			genDNSFields(ch, hosts, &o)
			o.Host = f[1+ch.Intn("q.alias", len(f)-1)]
			if strings.HasPrefix(o.Host, "#") {
				o.Host = f[1]
			}
		}
		return o
	case strings.HasPrefix(l, "||") || strings.HasPrefix(l, "@@||") || strings.HasPrefix(l, "|https://") || strings.HasPrefix(l, "://") || strings.HasPrefix(l, "@@|https://"):
		h := strings.TrimPrefix(l, "@@")
		for _, pre := range []string{"||", "|https://", "://"} {
			h = strings.TrimPrefix(h, pre)
		}
		rest := ""
		if j := strings.IndexAny(h, "^/$*"); j >= 0 {
			h, rest = h[:j], h[j:]
		}
		if h == "" {
			return o
		}
		// the path the rule's pattern asks for, if it spells one out
		if j := strings.IndexByte(rest, '$'); j >= 0 {
			rest = rest[:j]
		}
		rest = strings.TrimRight(rest, "^|")
		if strings.HasPrefix(rest, "/") && !strings.ContainsAny(rest, "*^|") && o.Kind != OpDNS && o.Kind != OpCosmetic && !o.HostnameReq && ch.Intn("q.rulepath", 2) == 1 {
			o.URL = "https://" + h + rest + []string{"", "?x=1", ".png?track=1"}[ch.Intn("q.rulepathtail", 3)]
			return o
		}
		if ch.Intn("q.sub", 4) == 3 {
			h = "www." + h
		}
		switch {
		case o.Kind == OpDNS || o.HostnameReq:
			o.Host = h
		case o.Kind == OpCosmetic:
			o.Host = h
		default:
			o.URL = "https://" + h + webPaths[ch.Intn("q.path", len(webPaths))]
		}
		return o
	}
	return o
}

func genDNSFields(ch *core.Chooser, hosts []string, o *Op) {
	o.Host = queryHost(ch, hosts)
	o.DNSType = DNSTypes[ch.Intn("q.dnstype", len(DNSTypes))]
	o.Client = ClientNames[ch.Intn("q.client", len(ClientNames))]
	o.IP = ClientIPs[ch.Intn("q.ip", len(ClientIPs))]
	o.Tags = ch.Intn("q.tags", len(TagSets))
	o.Answer = o.Kind == OpDNS && ch.Intn("q.answer", 5) == 4
}

// MutateOneField returns a copy of a DNS-style op that differs from o in
// exactly one client-side field: the leak detector.  A query that inherits
// that field from its predecessor answers differently.
func MutateOneField(ch *core.Chooser, o Op) Op {
	n := o
	f := ch.Intn("q.mutfield", 5)
	if f == 4 && (o.Kind != OpDNS || o.Short) {
		f = 3
	}
	switch f {
	case 4:
		n.Answer = !o.Answer
	case 0:
		n.Client = ClientNames[(indexOf(ClientNames, o.Client)+1+ch.Intn("q.mutv", len(ClientNames)-1))%len(ClientNames)]
	case 1:
		n.IP = ClientIPs[(indexOf(ClientIPs, o.IP)+1+ch.Intn("q.mutv", len(ClientIPs)-1))%len(ClientIPs)]
	case 2:
		n.Tags = (o.Tags + 1 + ch.Intn("q.mutv", len(TagSets)-1)) % len(TagSets)
	default:
		cur := 0
		for i, t := range DNSTypes {
			if t == o.DNSType {
				cur = i
			}
		}
		n.DNSType = DNSTypes[(cur+1+ch.Intn("q.mutv", len(DNSTypes)-1))%len(DNSTypes)]
	}
	return n
}

func indexOf(xs []string, s string) int {
	for i, x := range xs {
		if x == s {
			return i
		}
	}
	return 0
}

// DNSRequest renders the op as a DNS request.
func (o *Op) DNSRequest() *urlfilter.DNSRequest {
	r := &urlfilter.DNSRequest{Hostname: o.Host, DNSType: o.DNSType, ClientName: o.Client, SortedClientTags: TagSets[o.Tags], Answer: o.Answer}
	if o.IP != "" {
		r.ClientIP = netip.MustParseAddr(o.IP)
	}
	return r
}

// Request renders the op as a rules.Request.
func (o *Op) Request() *rules.Request {
	if o.HostnameReq {
		r := rules.NewRequestForHostname(o.Host)
		r.DNSType = o.DNSType
		r.ClientName = o.Client
		r.SortedClientTags = TagSets[o.Tags]
		if o.IP != "" {
			r.ClientIP = netip.MustParseAddr(o.IP)
		}
		return r
	}
	r := rules.NewRequest(o.URL, o.Src, o.Type)
	if o.WebClient {
		r.ClientName = o.Client
		r.SortedClientTags = TagSets[o.Tags]
		if o.IP != "" {
			r.ClientIP = netip.MustParseAddr(o.IP)
		}
	}
	return r
}

// Engines is the system under simulation: one storage and the three engines
// built over it.
type Engines struct {
	Storage *filterlist.RuleStorage
	DNS     *urlfilter.DNSEngine
	Eng     *urlfilter.Engine
	Net     *urlfilter.NetworkEngine
}

// NewEngines builds all engines over s.
func NewEngines(s *filterlist.RuleStorage) *Engines {
	return &Engines{Storage: s, DNS: urlfilter.NewDNSEngine(s), Eng: urlfilter.NewEngine(s), Net: urlfilter.NewNetworkEngine(s)}
}

// Result keeps the raw answer of an op, for derived evaluations later on.
type Result struct {
	Kind    int
	DNS     *urlfilter.DNSResult
	Matched bool
	Web     *rules.MatchingResult
	All     []*rules.NetworkRule
	One     *rules.NetworkRule
	Cos     urlfilter.CosmeticResult
}

// Exec runs op against e.
func Exec(e *Engines, o *Op) *Result {
	r := &Result{Kind: o.Kind}
	switch o.Kind {
	case OpDNS:
		if o.Short {
			r.DNS, r.Matched = e.DNS.Match(o.Host)
		} else {
			r.DNS, r.Matched = e.DNS.MatchRequest(o.DNSRequest())
		}
	case OpRescan:
		sc := e.Storage.NewRuleStorageScanner()
		for sc.Scan() {
		}
		_ = urlfilter.NewDNSEngine(e.Storage)
	case OpWeb:
		r.Web = e.Eng.MatchRequest(o.Request())
	case OpMatchAll:
		r.All = e.Net.MatchAll(o.Request())
	case OpMatch:
		r.One, r.Matched = e.Net.Match(o.Request())
	case OpCosmetic:
		r.Cos = e.Eng.GetCosmeticResult(o.Host, o.CosOpt)
	}
	return r
}

func ruleStr(b *strings.Builder, r rules.Rule) {
	b.WriteString(r.Text())
	b.WriteByte('@')
	fmt.Fprintf(b, "%d", r.GetFilterListID())
}

func nrStr(b *strings.Builder, r *rules.NetworkRule) {
	if r == nil {
		b.WriteString("<nil>")
		return
	}
	ruleStr(b, r)
}

func nrList(b *strings.Builder, name string, rs []*rules.NetworkRule) {
	b.WriteString(" " + name + "=[")
	for i, r := range rs {
		if i > 0 {
			b.WriteString(" | ")
		}
		nrStr(b, r)
	}
	b.WriteString("]")
}

func hrList(b *strings.Builder, name string, rs []*rules.HostRule) {
	b.WriteString(" " + name + "=[")
	for i, r := range rs {
		if i > 0 {
			b.WriteString(" | ")
		}
		if r == nil {
			b.WriteString("<nil>")
		} else {
			ruleStr(b, r)
		}
	}
	b.WriteString("]")
}

func strList(b *strings.Builder, name string, xs []string) {
	b.WriteString(" " + name + "=[")
	b.WriteString(strings.Join(xs, " | "))
	b.WriteString("]")
}

// Canon renders the fields of a result (sequences: order and multiplicity
// matter) WITHOUT calling any derived evaluation on it.
func (r *Result) Canon() string {
	var b strings.Builder
	switch r.Kind {
	case OpDNS:
		fmt.Fprintf(&b, "dns matched=%t nr=", r.Matched)
		nrStr(&b, r.DNS.NetworkRule)
		nrList(&b, "nrs", r.DNS.NetworkRules)
		hrList(&b, "v4", r.DNS.HostRulesV4)
		hrList(&b, "v6", r.DNS.HostRulesV6)
	case OpWeb:
		b.WriteString("web basic=")
		nrStr(&b, r.Web.BasicRule)
		b.WriteString(" doc=")
		nrStr(&b, r.Web.DocumentRule)
		b.WriteString(" stealth=")
		nrStr(&b, r.Web.StealthRule)
		nrList(&b, "csp", r.Web.CspRules)
		nrList(&b, "cookie", r.Web.CookieRules)
		nrList(&b, "replace", r.Web.ReplaceRules)
	case OpMatchAll:
		b.WriteString("all")
		nrList(&b, "rules", r.All)
	case OpMatch:
		fmt.Fprintf(&b, "match ok=%t rule=", r.Matched)
		nrStr(&b, r.One)
	case OpRescan:
		b.WriteString("rescan")
	case OpCosmetic:
		b.WriteString("cos")
		strList(&b, "g", r.Cos.ElementHiding.Generic)
		strList(&b, "s", r.Cos.ElementHiding.Specific)
		strList(&b, "gx", r.Cos.ElementHiding.GenericExtCSS)
		strList(&b, "sx", r.Cos.ElementHiding.SpecificExtCSS)
		strList(&b, "cssg", r.Cos.CSS.Generic)
		strList(&b, "csss", r.Cos.CSS.Specific)
		strList(&b, "jsg", r.Cos.JS.Generic)
		strList(&b, "jss", r.Cos.JS.Specific)
	}
	return b.String()
}

// Derived kinds.
const (
	DRewrites = iota
	DRewritesAll
	DBasicRule // rules.GetDNSBasicRule(NetworkRules)
	DBasicResult
	DCosmeticOption
	DNewMatchingResult // rules.NewMatchingResult(All, nil) and (All, All)
	NumDerived
)

// DerivedApplies reports whether derived evaluation d is defined for results
// of op kind k.
func DerivedApplies(k, d int) bool {
	switch k {
	case OpDNS:
		return d == DRewrites || d == DRewritesAll || d == DBasicRule
	case OpWeb:
		return d == DBasicResult || d == DCosmeticOption
	case OpMatchAll:
		return d == DNewMatchingResult || d == DBasicRule
	}
	return false
}

// Derived evaluates derived result d on r and renders it; "" if d does not
// apply to this kind of result.
func (r *Result) Derived(d int) string {
	var b strings.Builder
	switch {
	case r.Kind == OpDNS && d == DRewrites:
		nrList(&b, "rw", r.DNS.DNSRewrites())
	case r.Kind == OpDNS && d == DRewritesAll:
		nrList(&b, "rwall", r.DNS.DNSRewritesAll())
	case r.Kind == OpDNS && d == DBasicRule:
		b.WriteString("dnsbasic=")
		nrStr(&b, rules.GetDNSBasicRule(r.DNS.NetworkRules))
	case r.Kind == OpWeb && d == DBasicResult:
		b.WriteString("basicres=")
		nrStr(&b, r.Web.GetBasicResult())
	case r.Kind == OpWeb && d == DCosmeticOption:
		fmt.Fprintf(&b, "cosopt=%d", r.Web.GetCosmeticOption())
	case r.Kind == OpMatchAll && d == DNewMatchingResult:
		m := rules.NewMatchingResult(r.All, nil)
		b.WriteString("mr.basic=")
		nrStr(&b, m.BasicRule)
		m2 := rules.NewMatchingResult(r.All, r.All)
		b.WriteString(" mr2.basic=")
		nrStr(&b, m2.BasicRule)
		b.WriteString(" mr2.doc=")
		nrStr(&b, m2.DocumentRule)
	case r.Kind == OpMatchAll && d == DBasicRule:
		b.WriteString("dnsbasic=")
		nrStr(&b, rules.GetDNSBasicRule(r.All))
	}
	return b.String()
}

// CanonFull renders fields plus every derived evaluation.  It is what the
// concurrency and fault workloads compare: it is what users consume.
func (r *Result) CanonFull() string {
	s := r.Canon()
	for d := 0; d < NumDerived; d++ {
		if x := r.Derived(d); x != "" {
			s += " " + x
		}
	}
	return s
}

// RuleTexts lists the texts of all rules (and cosmetic contents) in r.
func (r *Result) RuleTexts() (out []string) {
	nr := func(rs ...*rules.NetworkRule) {
		for _, x := range rs {
			if x != nil {
				out = append(out, x.Text())
			}
		}
	}
	switch r.Kind {
	case OpDNS:
		if r.DNS != nil {
			nr(r.DNS.NetworkRule)
			nr(r.DNS.NetworkRules...)
			for _, h := range append(append([]*rules.HostRule{}, r.DNS.HostRulesV4...), r.DNS.HostRulesV6...) {
				if h != nil {
					out = append(out, h.Text())
				}
			}
		}
	case OpWeb:
		if r.Web != nil {
			nr(r.Web.BasicRule, r.Web.DocumentRule, r.Web.StealthRule)
			nr(r.Web.CspRules...)
			nr(r.Web.CookieRules...)
			nr(r.Web.ReplaceRules...)
		}
	case OpMatchAll:
		nr(r.All...)
	case OpMatch:
		nr(r.One)
	case OpCosmetic:
		for _, l := range [][]string{r.Cos.ElementHiding.Generic, r.Cos.ElementHiding.Specific, r.Cos.ElementHiding.GenericExtCSS, r.Cos.ElementHiding.SpecificExtCSS} {
			out = append(out, l...)
		}
	}
	return out
}
