// Package workload generates rule lists and requests from a deliberately
// small alphabet (so that shortcut windows, $domain values and host names
// collide and share index buckets) and renders answers in a canonical form.
package workload

import (
	"fmt"
	"strings"

	"github.com/AdguardTeam/urlfilter/filterutil"

	"verifsim/core"
)

// AllHosts is the global host alphabet.  Several hosts have a repeated 5-byte
// window ("adsad" occurs at offsets 0 and 3 of adsadsads.com), so that one
// lookup visits the same index bucket twice.
var AllHosts = []string{
	"example.org", "ads.example.org", "track.example.org", "sub.ads.example.org",
	"example.com", "ads.example.com", "cdn.example.net", "example.net",
	"adsadsads.com", "ababababab.org", "xyzxyzxyzxyz.example.org", "adsadsads.example.org",
	"test.co.uk", "ads.test.co.uk", "a1b2c3.io", "shop.example.org",
	"media.cdn.example.net", "tracker.io", "stats.tracker.io", "banner.shop.example.org",
	"trackertracker.io", "localhost",
	// internationalised names, as typed and in their ASCII form
	"b\u00fccher.example.org", "xn--bcher-kva.example.org",
}

// The index structures key on 32-bit djb2 hashes (host names in the DNS
// engine's table, 5-byte windows in the shortcuts table, $domain values).  Two
// pairs of colliding keys (found offline by enumeration) are added to the host
// alphabet, so that "same bucket, different key" is an everyday event instead
// of a one-in-four-billion one.  They are verified at start-up and silently
// dropped if the hash function under test no longer makes them collide.
func init() {
	if a, b := "c89959.example.org", "c2012306.example.org"; filterutil.FastHash(a) == filterutil.FastHash(b) {
		AllHosts = append(AllHosts, a, b)
	}
	if a, b := "o0-4v", "o2o64"; filterutil.FastHashBetween(a, 0, 5) == filterutil.FastHashBetween(b, 0, 5) {
		AllHosts = append(AllHosts, a+"x.com", b+"x.com")
	}
}

var clientRuleVals = []string{
	"alice", "'bob laptop'", "~alice", "carol|alice", "10.0.0.1", "10.0.0.0/8", "~10.0.0.1", "::1", "fe80::/10",
	"alice|10.0.0.1", "~'bob laptop'|~192.168.0.1", "192.168.0.0/16",
}

// ClientNames, ClientIPs, TagSets and DNSTypes are the request-side alphabets.
var (
	// (the last three read like a name glued to a tag with a separator)
	ClientNames = []string{"", "alice", "bob laptop", "carol", "alice|device_pc", "alice,device_pc", "alice device_pc"}
	ClientIPs   = []string{"", "10.0.0.1", "10.1.2.3", "192.168.0.1", "::1", "fe80::1"}
	TagSets     = [][]string{nil, {"device_pc"}, {"device_phone", "user_child"}, {"device_pc", "user_admin", "user_child"}}
	DNSTypes    = []uint16{0, 1, 28, 5, 15, 16}
)

var ctagRuleVals = []string{"device_pc", "device_phone|user_child", "~user_admin", "device_pc|~user_child", "user_child"}
var dnstypeRuleVals = []string{"A", "AAAA", "~A", "A|AAAA", "CNAME", "~AAAA|~MX", "TXT"}
var rewriteVals = []string{
	"1.2.3.4", "1.2.3.5", "::1", "NXDOMAIN", "REFUSED", "SERVFAIL", "cname.example.net", "other.example.org",
	"NOERROR;A;1.2.3.4", "NOERROR;A;9.9.9.9", "NOERROR;AAAA;::2", "NOERROR;CNAME;cname.example.net",
	"NOERROR;MX;10 mail.example.org", "NOERROR;TXT;hello", "NXDOMAIN;;", "REFUSED;;",
	"NOERROR;HTTPS;1 . alpn=h3", "NOERROR;SRV;1 2 80 srv.example.org", "NOERROR;PTR;ptr.example.org.",
}
var webPaths = []string{"", "/", "/ads.js", "/banner/728x90/img.png", "/path/AdS.js?x=1", "/adsadsads/ads.gif", "/img/banner.png?track=1", "/trackertracker/t.js",
	"/ad/x.gif", "/ad?slot=1", "/path/ads.js?x=1", "/ADS.js"}
var pathPatterns = []string{"/ads.js", "/banner/*/img", "/adsads", "ads.gif|", "/img/banner", "track=", "/AdS.js", "/tracker",
	"|https://*/ads", ":8080/", "^ads.js^", ".png?track", "/img/*.png?track=1|", "|ws"}
var typeOpts = []string{"script", "image", "~script", "subdocument", "xmlhttprequest", "script,image", "~image,~other", "document", "stylesheet",
	"object", "media", "font,stylesheet", "websocket", "ping", "other", "popup", "media,mp4", "script,empty", "first-party", "~websocket,~ping"}
var selectors = []string{".banner", "#ad", "div.ads", ".track > a", "[data-ad]"}

// PickHosts draws the per-run host alphabet (a small subset, so that lists
// and requests collide).
func PickHosts(ch *core.Chooser) []string {
	n := 3 + ch.Intn("hosts.n", 6)
	// family theme: in a third of the runs all hosts belong to one
	// registrable domain (a site, its sub-domains and sub-sub-domains), so
	// that parent and child buckets, wildcard rules and per-site state meet
	from := AllHosts
	if ch.Intn("hosts.family", 3) == 2 {
		base := []string{"example.org", "example.org", "example.com", "tracker.io", "example.net"}[ch.Intn("hosts.base", 5)]
		var fam []string
		for _, h := range AllHosts {
			if h == base || strings.HasSuffix(h, "."+base) {
				fam = append(fam, h)
			}
		}
		if len(fam) >= 2 {
			from = fam
			if n > len(fam) {
				n = len(fam)
			}
		}
	}
	// partial Fisher-Yates: a bounded number of draws whatever the values
	// (a scripted replay may feed zeros for ever)
	idx := make([]int, len(from))
	for i := range idx {
		idx[i] = i
	}
	hs := make([]string, 0, n)
	for i := 0; i < n; i++ {
		j := i + ch.Intn("hosts.pick", len(idx)-i)
		idx[i], idx[j] = idx[j], idx[i]
		hs = append(hs, from[idx[i]])
	}
	// a name no earlier run of this process has used (the draw is part of the
	// choice log): whatever the library memoises per name or per pattern
	// outside its engines is cold for it
	if ch.Intn("hosts.fresh", 2) == 1 {
		hs = append(hs, fmt.Sprintf("n%06x.example.org", ch.Intn("hosts.salt", 1<<24)))
	}
	// hash-colliding names come in pairs: if one is in, so is its partner
	pairs := [][2]string{{"c89959.example.org", "c2012306.example.org"}, {"o0-4vx.com", "o2o64x.com"}}
	for _, pr := range pairs {
		has0, has1 := false, false
		for _, h := range hs {
			has0 = has0 || h == pr[0]
			has1 = has1 || h == pr[1]
		}
		if has0 != has1 {
			if has0 {
				hs = append(hs, pr[1])
			} else {
				hs = append(hs, pr[0])
			}
		}
	}
	// skew: a "hot" host takes a larger share of rules and queries, so that
	// many rules pile up on one name
	hot := []int{0, 0, 2, 5}[ch.Intn("hosts.hot", 4)]
	for i := 0; i < hot; i++ {
		hs = append(hs, hs[0])
	}
	// case theme: now and then one host also appears in capitals, in rules
	// and in requests (state keyed case-insensitively but kept as first
	// spelled)
	if ch.Intn("hosts.case", 6) == 5 {
		hs = append(hs, strings.ToUpper(hs[0]))
		if len(hs) > 3 {
			hs = append(hs, strings.ToUpper(hs[1][:1])+hs[1][1:])
		}
	}
	return hs
}

// SwarmKinds keeps a random subset of the kind mix for this run (swarm
// testing): omitting kinds entirely reaches states that a uniform mix almost
// never does, e.g. a host whose only rules are $dnsrewrite rules.
func SwarmKinds(ch *core.Chooser, kinds []int) []int {
	if ch.Intn("swarm.on", 3) == 0 {
		return kinds
	}
	kinds = append([]int{}, kinds...)
	var keep [numKinds]bool
	n := 0
	for k := 0; k < numKinds; k++ {
		if ch.Intn("swarm.keep", 2) == 1 {
			keep[k] = true
		}
	}
	var out []int
	for _, k := range kinds {
		if keep[k] {
			out = append(out, k)
			n++
		}
	}
	if n < 3 {
		out = kinds
	}
	// focus: one kind takes a large share of this run's lines, so that many
	// rules of one kind pile up (a $domain bucket with several entries, a
	// host with a dozen hosts-file lines, a stack of rewrites)
	if ch.Intn("swarm.focus", 2) == 1 {
		f := out[ch.Intn("swarm.focuskind", len(out))]
		out = append([]int{}, out...)
		for i := 0; i < len(out)/2+3; i++ {
			out = append(out, f)
		}
	}
	return out
}

func pick(ch *core.Chooser, label string, xs []string) string {
	return xs[ch.Intn(label, len(xs))]
}

// RuleKind enumerates line templates.
const (
	KBlock = iota
	KBlockImportant
	KAllow
	KAllowImportant
	KClient
	KCtag
	KDNSType
	KDenyAllow
	KRewrite
	KRewriteException
	KBadfilter
	KRegex
	KBadRegex
	KHostV4
	KHostV6
	KBareDomain
	KWebPath
	KWebTyped
	KWebDomain
	KWebThirdParty
	KWebDocAllow
	KWebMatchCase
	KCosmetic
	KCosmeticException
	KComment
	KBlank
	KInvalid
	KWildHostPrefix
	KHostBlock
	numKinds
)

// DNSKinds / WebKinds / AllKinds are kind mixes for the different workloads.
var (
	DNSKinds = []int{KBlock, KBlock, KBlockImportant, KAllow, KAllowImportant, KClient, KClient, KCtag, KCtag, KDNSType, KDNSType,
		KDenyAllow, KRewrite, KRewrite, KRewrite, KRewriteException, KBadfilter, KRegex, KBadRegex, KHostV4, KHostV4, KHostV6, KBareDomain,
		KComment, KBlank, KInvalid, KWildHostPrefix, KHostBlock}
	WebKinds = []int{KBlock, KAllow, KBlockImportant, KWebPath, KWebPath, KWebTyped, KWebTyped, KWebDomain, KWebDomain, KWebThirdParty,
		KWebDocAllow, KWebDocAllow, KWebMatchCase, KBadfilter, KRegex, KBadRegex, KCosmetic, KCosmetic, KCosmeticException, KComment, KInvalid, KRewrite}
	AllKinds = append(append([]int{}, DNSKinds...), WebKinds...)
)

// GenRule renders one line of kind k.  prev are the lines generated so far
// (for $badfilter twins).
func GenRule(ch *core.Chooser, k int, hosts []string, prev []string) string {
	h := pick(ch, "rule.host", hosts)
	switch k {
	case KBlock:
		return "||" + h + "^"
	case KBlockImportant:
		return "||" + h + "^$important"
	case KAllow:
		return "@@||" + h + "^"
	case KAllowImportant:
		return "@@||" + h + "^$important"
	case KClient:
		pre := []string{"||", "@@||"}[ch.Intn("rule.allow", 2)]
		return pre + h + "^$client=" + pick(ch, "rule.client", clientRuleVals)
	case KCtag:
		pre := []string{"||", "@@||"}[ch.Intn("rule.allow", 2)]
		return pre + h + "^$ctag=" + pick(ch, "rule.ctag", ctagRuleVals)
	case KDNSType:
		pre := []string{"||", "@@||"}[ch.Intn("rule.allow", 2)]
		return pre + h + "^$dnstype=" + pick(ch, "rule.dnstype", dnstypeRuleVals)
	case KDenyAllow:
		// mostly anchored to a host; sometimes a pattern that an IP-literal
		// or arbitrary host name reaches too (the $denyallow IP exception)
		switch ch.Intn("rule.daform", 6) {
		case 0:
			return "*$denyallow=" + pick(ch, "rule.host2", hosts) + "|" + pick(ch, "rule.host3", hosts)
		case 1:
			return "||192.0.2.55^$denyallow=" + pick(ch, "rule.host2", hosts)
		}
		return "||" + h + "^$denyallow=" + pick(ch, "rule.host2", hosts)
	case KRewrite:
		imp := []string{"", ",important"}[ch.Intn("rule.imp", 4)/3]
		return "||" + h + "^$dnsrewrite=" + pick(ch, "rule.rewrite", rewriteVals) + imp
	case KRewriteException:
		switch ch.Intn("rule.rwexc", 4) {
		case 0:
			return "@@||" + h + "^$dnsrewrite"
		case 1:
			return "@@||" + h + "^$important,dnsrewrite"
		default:
			return "@@||" + h + "^$dnsrewrite=" + pick(ch, "rule.rewrite", rewriteVals)
		}
	case KBadfilter:
		// twin of an earlier network rule, if there is one
		var cands []string
		for _, p := range prev {
			if strings.HasPrefix(p, "||") || strings.HasPrefix(p, "@@||") {
				if !strings.Contains(p, "badfilter") && !strings.Contains(p, "#") {
					cands = append(cands, p)
				}
			}
		}
		if len(cands) == 0 {
			return "||" + h + "^$badfilter"
		}
		p := cands[ch.Intn("rule.twin", len(cands))]
		if strings.Contains(p, "$") {
			return p + ",badfilter"
		}
		return p + "$badfilter"
	case KRegex:
		lbl := strings.SplitN(h, ".", 2)[0]
		switch ch.Intn("rule.regex", 8) {
		case 0:
			return "/" + lbl + "[a-z0-9]*\\./"
		case 1:
			return "/^https?:\\/\\/" + strings.ReplaceAll(h, ".", "\\.") + "/"
		case 3:
			// twins that differ in the case of one letter of the pattern
			return "/\\/ads\\d*\\.js/"
		case 4:
			return "/\\/ads\\D*\\.js/"
		case 6:
			// a '?' keeps an expression out of the shortcuts table: these
			// are scanned sequentially
			return []string{"/\\/ads?\\.js/", "/banner\\/?[0-9]+x[0-9]+/", "@@/track(er)?=1/", "/\\/ads?\\.js/$script,important"}[ch.Intn("rule.regexq", 4)]
		case 5:
			// the same expression as case 3, case-sensitive
			return "/\\/ads\\d*\\.js/$match-case" + []string{"", ",script", ",image"}[ch.Intn("rule.regexmc", 3)]
		default:
			return "@@/" + lbl + "\\.[a-z]+/"
		}
	case KBadRegex:
		// accepted by the parser, fails to compile on first use and marks
		// itself invalid
		lbl := strings.SplitN(h, ".", 2)[0]
		return "/" + lbl + "[/"
	case KHostV4:
		ip := []string{"0.0.0.0", "127.0.0.1", "1.2.3.4", "10.9.8.7"}[ch.Intn("rule.ip4", 4)]
		s := ip + " " + h
		if ch.Intn("rule.manynames", 8) == 7 {
			// one line with many names
			n := 7 + ch.Intn("rule.manynamesn", 6)
			for i := 0; i < n; i++ {
				if i%3 == 2 {
					s += " " + pick(ch, "rule.host2", hosts)
				} else {
					s += fmt.Sprintf(" n%d.%s", i, h)
				}
			}
			return s
		}
		if ch.Intn("rule.alias", 3) == 0 {
			s += " " + pick(ch, "rule.host2", hosts)
		}
		if ch.Intn("rule.hcomment", 4) == 0 {
			s += " # note"
		}
		return s
	case KHostV6:
		ip := []string{"::", "::1", "2001:db8::1"}[ch.Intn("rule.ip6", 3)]
		return ip + " " + h
	case KHostBlock:
		// many hosts-file lines for ONE name (buckets with more than a
		// handful of entries), v4 and v6 mixed
		var ls []string
		n := 9 + ch.Intn("rule.blockn", 6)
		for i := 0; i < n; i++ {
			if i%4 == 3 {
				ls = append(ls, fmt.Sprintf("2001:db8::%x %s", i+1, h))
			} else {
				ls = append(ls, fmt.Sprintf("10.77.0.%d %s", i+1, h))
			}
		}
		return strings.Join(ls, "\n")
	case KBareDomain:
		return h
	case KWebPath:
		pre := []string{"", "||" + h, "@@||" + h, "@@", "||" + h, "|https://" + h, "://" + h, "||" + h + ":8080"}[ch.Intn("rule.webpre", 8)]
		pat := pick(ch, "rule.path", pathPatterns)
		if !strings.HasPrefix(pat, "/") && len(pre) > 2 {
			// a host in front of a pattern that does not start a path
			// gives nothing that matches anything
			if strings.HasPrefix(pre, "@@") && !strings.HasPrefix(pat, "|") {
				pre = "@@"
			} else {
				pre = ""
			}
		}
		return pre + pat
	case KWebTyped:
		pre := []string{"||", "@@||"}[ch.Intn("rule.allow", 2)]
		return pre + h + "^$" + pick(ch, "rule.type", typeOpts)
	case KWebDomain:
		d := pick(ch, "rule.host2", hosts)
		// often a domain that an earlier $domain rule names too: rules that
		// share a bucket of the $domain table
		if ch.Intn("rule.domaintwin", 3) == 2 {
			var seen []string
			for _, p := range prev {
				if i := strings.Index(p, "domain="); i >= 0 && !strings.Contains(p, "denyallow") {
					v := p[i+len("domain="):]
					if j := strings.IndexAny(v, ",|"); j >= 0 {
						v = v[:j]
					}
					if v = strings.TrimPrefix(v, "~"); v != "" && !strings.HasSuffix(v, ".*") {
						seen = append(seen, v)
					}
				}
			}
			if len(seen) > 0 {
				d = seen[ch.Intn("rule.domainseen", len(seen))]
			}
		}
		switch ch.Intn("rule.domainform", 11) {
		case 7:
			// patterns too short for the shortcuts table: these rules live
			// in the $domain table
			return []string{"/ad^", "ad*", "|ws", "=1"}[ch.Intn("rule.shortpat", 4)] + "$domain=" + d
		case 8:
			a := []string{"/ad^", "/ad^", "ad*", "=1"}[ch.Intn("rule.shortpat", 4)] + "$domain=" + pick(ch, "rule.host3", hosts) + "|" + d
			if ch.Intn("rule.bucketpair", 2) == 1 {
				// preceded, in the bucket of d, by a rule that lives in that
				// bucket only
				return []string{"|ws", "=1", "/ad^"}[ch.Intn("rule.shortpat2", 3)] + "$domain=" + d + "\n" + a
			}
			return a
		case 9:
			return "@@/ad^$domain=" + d
		case 4:
			return "*$image,domain=" + d
		case 5:
			return "*$" + pick(ch, "rule.type", typeOpts) + ",third-party,domain=" + d
		case 6:
			return pick(ch, "rule.path", pathPatterns) + "$domain=" + d
		case 0:
			return "||" + h + "^$domain=" + d
		case 10:
			// any public suffix
			return pick(ch, "rule.path", pathPatterns) + "$domain=" + strings.SplitN(d, ".", 2)[0] + ".*"
		case 1:
			return pick(ch, "rule.path", pathPatterns) + "$domain=" + d + "|~" + pick(ch, "rule.host3", hosts)
		case 2:
			return "*$script,domain=" + d
		default:
			return "@@||" + h + "^$domain=~" + d
		}
	case KWebThirdParty:
		return "||" + h + "^$" + []string{"third-party", "~third-party", "third-party,script"}[ch.Intn("rule.tp", 3)]
	case KWebDocAllow:
		if ch.Intn("rule.docpath", 3) == 2 {
			// document-level exception for one page of the site only
			return "@@||" + h + pick(ch, "rule.srcpath", []string{"/checkout", "/news", "/page", "/app?debug=1"}) + "^$" + []string{"urlblock", "genericblock", "document", "elemhide"}[ch.Intn("rule.doc", 4)]
		}
		lim := ""
		if ch.Intn("rule.doclim", 5) == 4 {
			// a document-level exception for some clients only
			lim = []string{",client=alice", ",client=~alice", ",ctag=device_pc", ",client=10.0.0.0/8"}[ch.Intn("rule.doclimv", 4)]
		}
		return "@@||" + h + "^$" + []string{"document", "urlblock", "genericblock", "elemhide", "generichide", "jsinject", "stealth", "content"}[ch.Intn("rule.doc", 8)] + lim
	case KWebMatchCase:
		// patterns that differ in nothing but the case of a letter
		switch ch.Intn("rule.mcform", 6) {
		case 0:
			return "/ads.js$match-case"
		case 1:
			return "/ADS.js$match-case,script"
		case 2:
			return "||" + h + "/path/ads.js$match-case"
		case 3:
			return "||" + h + "/path/AdS.js$match-case,image"
		}
		return "/AdS.js$match-case"
	case KCosmetic:
		switch ch.Intn("rule.cosform", 8) {
		case 0:
			return "##" + pick(ch, "rule.sel", selectors)
		case 1:
			return h + "##" + pick(ch, "rule.sel", selectors)
		case 2:
			return h + "," + pick(ch, "rule.host2", hosts) + "##" + pick(ch, "rule.sel", selectors)
		case 4:
			// any public suffix
			return strings.SplitN(h, ".", 2)[0] + ".*##" + pick(ch, "rule.sel", selectors)
		case 5:
			return h + ",~www." + h + "##" + pick(ch, "rule.sel", selectors)
		case 6:
			// not supported by this version: must be skipped alike everywhere
			return h + []string{"#?#", "#$#", "#%#", "#@?#"}[ch.Intn("rule.cosmarker", 4)] + pick(ch, "rule.sel", selectors)
		default:
			return "~" + h + "##" + pick(ch, "rule.sel", selectors)
		}
	case KCosmeticException:
		// mostly the exception of an element-hiding rule that is already in
		// the list (same selector), so that exceptions actually bite
		var sels []string
		for _, p := range prev {
			if i := strings.Index(p, "##"); i >= 0 && !strings.HasPrefix(p, "!") && !strings.HasPrefix(p, "#") && !strings.Contains(p, " ") {
				sels = append(sels, p[i+2:])
			}
		}
		if len(sels) > 0 && ch.Intn("rule.exctwin", 4) != 0 {
			return h + "#@#" + sels[ch.Intn("rule.excsel", len(sels))]
		}
		return h + "#@#" + pick(ch, "rule.sel", selectors)
	case KComment:
		return []string{"! comment " + h, "# comment", "#"}[ch.Intn("rule.comment", 3)]
	case KBlank:
		return []string{"", "   ", "\t"}[ch.Intn("rule.blank", 3)]
	case KInvalid:
		return []string{"||" + h + "^$unknownmod", "@@", "||", "$$$", h + "#$#body { x: y }", "||" + h + "^$client=", "||" + h + "^$dnsrewrite=a;b"}[ch.Intn("rule.invalid", 7)]
	case KWildHostPrefix:
		lbl := strings.SplitN(h, ".", 2)[0]
		return "||" + lbl + "*^"
	}
	panic(fmt.Sprintf("unknown kind %d", k))
}

// GenList renders between min and max lines drawn from kinds; after the first
// min lines every further line is a More decision with probability pct, each
// line being one deletable span.
func GenList(ch *core.Chooser, kinds []int, hosts []string, min, max, pct int) []string {
	lines := make([]string, 0, 32)
	for i := 0; i < max; i++ {
		if i < min {
			ch.Begin("line")
		} else if !ch.More("line", pct) {
			break
		}
		k := kinds[ch.Intn("list.kind", len(kinds))]
		lines = append(lines, GenRule(ch, k, hosts, lines))
		ch.End()
	}
	return lines
}
