//go:build !amd64

package core

import "runtime"

// getg returns an identity of the calling goroutine, derived from the
// goroutine id printed by runtime.Stack (slow path for other architectures).
func getg() uintptr {
	var buf [64]byte
	n := runtime.Stack(buf[:], false)
	id := uintptr(0)
	for _, c := range buf[len("goroutine "):n] {
		if c < '0' || c > '9' {
			break
		}
		id = id*10 + uintptr(c-'0')
	}
	return id
}
