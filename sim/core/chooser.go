package core

// Choice is one recorded decision.
type Choice struct {
	Label string `json:"l"`
	N     int    `json:"n"`
	V     int    `json:"v"`
}

// Chooser is the single source of every decision of a run: plan, schedule and
// fault placement.  A run is a pure function of (choice values, code).
//
// Values come from Script while it lasts and from the PRNG afterwards.  The
// PRNG is advanced on every draw, scripted or not, so that "replay a prefix,
// then continue" continues with exactly the stream of the recorded run.
type Chooser struct {
	rng    *Xoshiro
	Script []int
	pos    int
	// Log holds every decision taken so far.
	Log []Choice
	// KeepLabels makes Log carry labels (replay files); hashing and
	// shrinking only need the values.
	KeepLabels bool
	// Spans are the closed element spans, in closing order.
	Spans []Span
	open  []Span
}

// NewChooser returns a Chooser that draws from a PRNG seeded with seed.
func NewChooser(seed uint64) *Chooser {
	return &Chooser{rng: NewXoshiro(seed), KeepLabels: true}
}

// NewScripted returns a Chooser that replays script and yields 0 afterwards
// (rng == nil), or continues with the PRNG of seed (seed != nil).
func NewScripted(script []int, seed *uint64) *Chooser {
	c := &Chooser{Script: script, KeepLabels: true}
	if seed != nil {
		c.rng = NewXoshiro(*seed)
	}
	return c
}

// Intn draws a value in [0,n).  n <= 1 yields 0 but is still recorded, so the
// positions of a script do not depend on data-dependent shortcuts.
func (c *Chooser) Intn(label string, n int) int {
	v := 0
	var r uint64
	if c.rng != nil {
		r = c.rng.Next()
	}
	if n > 1 {
		if c.pos < len(c.Script) {
			v = c.Script[c.pos]
			if v < 0 {
				v = 0
			}
			if v >= n {
				v = v % n
			}
		} else if c.rng != nil {
			v = int(r % uint64(n))
		}
	}
	c.pos++
	ch := Choice{N: n, V: v}
	if c.KeepLabels {
		ch.Label = label
	}
	c.Log = append(c.Log, ch)
	return v
}

// Bool draws true with probability num/den.
func (c *Chooser) Bool(label string, num, den int) bool {
	return c.Intn(label, den) < num
}

// Range draws a value in [lo,hi].
func (c *Chooser) Range(label string, lo, hi int) int {
	if hi < lo {
		hi = lo
	}
	return lo + c.Intn(label, hi-lo+1)
}

// Values returns the recorded values, i.e. a script that replays this run.
func (c *Chooser) Values() []int {
	vs := make([]int, len(c.Log))
	for i, ch := range c.Log {
		vs[i] = ch.V
	}
	return vs
}

// Pos is the number of draws so far.
func (c *Chooser) Pos() int { return c.pos }

// Span is a contiguous range of draws that produced one element of the plan
// (a rule, a request, a task, an operation).  The shrinker deletes whole
// spans, so that plan and schedule shrink together.
type Span struct {
	Label      string
	Start, End int
}

// Begin opens a span.
func (c *Chooser) Begin(label string) { c.open = append(c.open, Span{Label: label, Start: c.pos}) }

// End closes the innermost span.
func (c *Chooser) End() {
	s := c.open[len(c.open)-1]
	c.open = c.open[:len(c.open)-1]
	s.End = c.pos
	if s.End > s.Start {
		c.Spans = append(c.Spans, s)
	}
}

// More decides whether a variable-length collection gets another element.
// It opens the element's span BEFORE the draw, so that deleting the span
// removes the "continue" decision together with the element; the caller must
// call End after generating the element, or Stop if More returned false.  A
// zero draw means "stop", which is what zeroing means to the shrinker.
func (c *Chooser) More(label string, pct int) bool {
	c.Begin(label)
	if c.Intn(label+".more", 100) >= 100-pct {
		return true
	}
	// the stop draw is not part of any element
	c.open = c.open[:len(c.open)-1]
	return false
}
