// Package core contains the deterministic-simulation kernel: the PRNG, the
// choice recorder, the cooperative scheduler with its two hand-off gates, and
// the choice-log shrinker.
package core

// SplitMix64 advances *x and returns the next splitmix64 output.  It is used
// to derive per-run seeds and to initialise Xoshiro.
func SplitMix64(x *uint64) uint64 {
	*x += 0x9e3779b97f4a7c15
	z := *x
	z = (z ^ (z >> 30)) * 0xbf58476d1ce4e5b9
	z = (z ^ (z >> 27)) * 0x94d049bb133111eb
	return z ^ (z >> 31)
}

// RunSeed derives the seed of run i of a batch from the batch seed.
func RunSeed(batch uint64, i uint64) uint64 {
	x := batch ^ (i * 0x9e3779b97f4a7c15)
	return SplitMix64(&x)
}

// Xoshiro is xoshiro256**.  It is implemented here, not taken from math/rand,
// so that the stream can never change under a toolchain upgrade.
type Xoshiro struct{ s [4]uint64 }

// NewXoshiro returns a generator seeded from seed through splitmix64.
func NewXoshiro(seed uint64) *Xoshiro {
	x := &Xoshiro{}
	for i := range x.s {
		x.s[i] = SplitMix64(&seed)
	}
	return x
}

func rotl(x uint64, k uint) uint64 { return (x << k) | (x >> (64 - k)) }

// Next returns the next 64 bits.
func (x *Xoshiro) Next() uint64 {
	r := rotl(x.s[1]*5, 7) * 9
	t := x.s[1] << 17
	x.s[2] ^= x.s[0]
	x.s[3] ^= x.s[1]
	x.s[1] ^= x.s[2]
	x.s[0] ^= x.s[3]
	x.s[2] ^= t
	x.s[3] = rotl(x.s[3], 45)
	return r
}

// Intn returns a value in [0,n).  n must be positive.  The tiny modulo bias is
// irrelevant here; what matters is that it is a pure function of the stream.
func (x *Xoshiro) Intn(n int) int {
	return int(x.Next() % uint64(n))
}
