#include "textflag.h"

// func getg() uintptr
// Returns the address of the current goroutine's g structure: a cheap
// goroutine identity (unique among live goroutines).
TEXT ·getg(SB),NOSPLIT,$0-8
	MOVQ (TLS), AX
	MOVQ AX, ret+0(FP)
	RET
