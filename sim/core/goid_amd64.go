//go:build amd64

package core

// getg returns an identity of the calling goroutine (see goid_amd64.s).
func getg() uintptr
