package core

import (
	"math"
	"math/bits"
)

// HLL is a small mergeable HyperLogLog sketch (2^14 registers), used to
// estimate the number of distinct abstract states across worker processes
// without shipping the sets around.  Standard error is about 0.8%.
type HLL struct{ Reg []byte }

const hllP = 14

// NewHLL returns an empty sketch.
func NewHLL() *HLL { return &HLL{Reg: make([]byte, 1<<hllP)} }

// Add inserts a 64-bit hash (it is re-mixed first).
func (h *HLL) Add(x uint64) {
	x = SplitMix64(&x)
	idx := x >> (64 - hllP)
	w := x<<hllP | 1<<(hllP-1)
	r := byte(bits.LeadingZeros64(w) + 1)
	if r > h.Reg[idx] {
		h.Reg[idx] = r
	}
}

// Merge folds o into h.
func (h *HLL) Merge(o *HLL) {
	if o == nil || len(o.Reg) != len(h.Reg) {
		return
	}
	for i, r := range o.Reg {
		if r > h.Reg[i] {
			h.Reg[i] = r
		}
	}
}

// Estimate returns the estimated cardinality.
func (h *HLL) Estimate() uint64 {
	m := float64(len(h.Reg))
	sum := 0.0
	zeros := 0
	for _, r := range h.Reg {
		sum += 1 / math.Pow(2, float64(r))
		if r == 0 {
			zeros++
		}
	}
	alpha := 0.7213 / (1 + 1.079/m)
	e := alpha * m * m / sum
	if e <= 2.5*m && zeros > 0 {
		e = m * math.Log(m/float64(zeros))
	}
	return uint64(e + 0.5)
}
