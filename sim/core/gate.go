package core

import (
	"fmt"
	"syscall"
	"unsafe"
)

// Gate is the hand-off mechanism between the scheduler and the tasks.  Exactly
// one party is ever runnable; everybody else is blocked inside Park or
// WaitNotify.
type Gate interface {
	Init(nTasks int) error
	// Park blocks task id until the scheduler wakes it.
	Park(id int)
	// Wake lets task id continue.
	Wake(id int)
	// Notify tells the scheduler that the running task has parked itself or
	// has finished.
	Notify()
	// WaitNotify blocks the scheduler until Notify.
	WaitNotify()
	Close()
	Name() string
}

// ChanGate hands off through unbuffered channels.  It is used in the plain
// build with GOMAXPROCS(1).  Channel operations synchronise, so this gate must
// not be used when the race detector is the oracle: it would order every pair
// of tasks through the scheduler and blind the detector.
type ChanGate struct {
	task  []chan struct{}
	sched chan struct{}
}

func (g *ChanGate) Name() string { return "chan" }

func (g *ChanGate) Init(n int) error {
	g.task = make([]chan struct{}, n)
	for i := range g.task {
		g.task[i] = make(chan struct{})
	}
	g.sched = make(chan struct{})
	return nil
}
func (g *ChanGate) Park(id int) { <-g.task[id] }
func (g *ChanGate) Wake(id int) { g.task[id] <- struct{}{} }
func (g *ChanGate) Notify()     { g.sched <- struct{}{} }
func (g *ChanGate) WaitNotify() { <-g.sched }
func (g *ChanGate) Close()      {}

// PipeGate hands off through raw read(2)/write(2) on pipes.  Raw system calls
// carry no race-detector annotations (those live in the syscall.Read/Write
// wrappers), so a strictly serialised schedule adds NO happens-before edge
// between tasks: the detector keeps computing the happens-before relation of
// the program under test alone, and still reports its races although the
// accesses never overlap in real time.
type PipeGate struct {
	taskR, taskW   []int
	schedR, schedW int
	buf            []byte // one byte per party, never shared
}

func (g *PipeGate) Name() string { return "pipe" }

func (g *PipeGate) Init(n int) error {
	g.taskR = make([]int, n)
	g.taskW = make([]int, n)
	g.buf = make([]byte, 2*n+2)
	var p [2]int
	for i := 0; i < n; i++ {
		if err := syscall.Pipe2(p[:], syscall.O_CLOEXEC); err != nil {
			return fmt.Errorf("pipe2: %w", err)
		}
		g.taskR[i], g.taskW[i] = p[0], p[1]
	}
	if err := syscall.Pipe2(p[:], syscall.O_CLOEXEC); err != nil {
		return fmt.Errorf("pipe2: %w", err)
	}
	g.schedR, g.schedW = p[0], p[1]
	return nil
}

//go:norace
func rawRead(fd int, b *byte) {
	for {
		n, _, e := syscall.Syscall(syscall.SYS_READ, uintptr(fd), uintptr(unsafe.Pointer(b)), 1)
		if e == syscall.EINTR || e == syscall.EAGAIN {
			continue
		}
		if e != 0 || n != 1 {
			panic(fmt.Sprintf("verifsim: raw read fd %d: n=%d errno=%d", fd, n, e))
		}
		return
	}
}

//go:norace
func rawWrite(fd int, b *byte) {
	for {
		n, _, e := syscall.Syscall(syscall.SYS_WRITE, uintptr(fd), uintptr(unsafe.Pointer(b)), 1)
		if e == syscall.EINTR || e == syscall.EAGAIN {
			continue
		}
		if e != 0 || n != 1 {
			panic(fmt.Sprintf("verifsim: raw write fd %d: n=%d errno=%d", fd, n, e))
		}
		return
	}
}

//go:norace
func (g *PipeGate) Park(id int) { rawRead(g.taskR[id], &g.buf[2*id]) }

//go:norace
func (g *PipeGate) Wake(id int) { rawWrite(g.taskW[id], &g.buf[2*id+1]) }

//go:norace
func (g *PipeGate) Notify() { rawWrite(g.schedW, &g.buf[len(g.buf)-1]) }

//go:norace
func (g *PipeGate) WaitNotify() { rawRead(g.schedR, &g.buf[len(g.buf)-2]) }

func (g *PipeGate) Close() {
	for i := range g.taskR {
		syscall.Close(g.taskR[i])
		syscall.Close(g.taskW[i])
	}
	syscall.Close(g.schedR)
	syscall.Close(g.schedW)
}

// pollIn waits up to ms milliseconds for fd to become readable (raw poll(2):
// no race-detector annotations, like the rest of the pipe gate).
//
//go:norace
func pollIn(fd int, ms int) bool {
	type pollfd struct {
		fd      int32
		events  int16
		revents int16
	}
	p := pollfd{fd: int32(fd), events: 1} // POLLIN
	for {
		n, _, e := syscall.Syscall(syscall.SYS_POLL, uintptr(unsafe.Pointer(&p)), 1, uintptr(ms))
		if e == syscall.EINTR {
			continue
		}
		return e == 0 && n == 1 && p.revents&1 != 0
	}
}
