package core

import (
	"fmt"
	"reflect"
	"runtime"
	"runtime/debug"
	"strings"
	"sync"
	"sync/atomic"
	"time"
)

// Heartbeat is bumped by the scheduler on every step.  A watchdog goroutine
// in the worker aborts the process (harness trouble, never a violation) when
// it stops moving.
var Heartbeat atomic.Uint64

// ForeignHookCalls counts hook calls that came from a goroutine other than
// the task (or, outside the scheduler, the goroutine) that issued the query:
// the library under test started goroutines of its own.  Their interleaving
// is not under the simulator's control, so runs of such code need not be
// repeatable; the driver reports that instead of calling it harness trouble.
var ForeignHookCalls atomic.Int64

// MainHooks returns hooks for executions that are not scheduled (histories on
// one goroutine): they do nothing but notice calls from other goroutines.
func MainHooks() func(string, any, int64) {
	me := getg()
	return func(string, any, int64) {
		if getg() != me {
			ForeignHookCalls.Add(1)
		}
	}
}

// Points known to the scheduler.  The order is part of the trace hash, so
// only ever append.
var pointNames = []string{
	"start",
	"storage.rlock", "storage.miss", "storage.lock",
	"file.lock", "file.seekread",
	"rule.lock", "rule.compile",
	"dns.poolget", "dns.poolput",
	"lookup.retrieved",
	"op", // yield inserted by the harness between two operations of a task
	"done",
	"file.blockread",
	"storage.rlocked",
	"storage.wlocked",
	// points inserted by cmd/astyield in a scratch copy, in front of
	// synchronisation operations that have no hand-placed point
	"auto",
	"auto.lock",
	"auto.rlock",
}

// Point ids.
const (
	PStart = iota
	PStorageRLock
	PStorageMiss
	PStorageLock
	PFileLock
	PFileSeekRead
	PRuleLock
	PRuleCompile
	PPoolGet
	PPoolPut
	PLookupRetrieved
	POp
	PDone
	PFileBlockRead
	PStorageRLocked
	PStorageWLocked
	PAuto
	PAutoLock
	PAutoRLock
	numPoints
)

// PointName returns the name of point id p.
func PointName(p int) string {
	if p < 0 || p >= len(pointNames) {
		return fmt.Sprintf("point#%d", p)
	}
	return pointNames[p]
}

func pointID(name string) int {
	for i, n := range pointNames {
		if n == name {
			return i
		}
	}
	return -1
}

// LockMode says how the scheduler learns whether a task parked in front of a
// lock may be released.
type LockMode int

const (
	// LockProbe probes the REAL lock with TryLock/TryRLock while every task
	// is parked.  The harness does not model mutual exclusion, it observes
	// it: if a change removes a Lock call, the probe always succeeds and a
	// second task is let into the critical section.  Used in the plain
	// build.
	LockProbe LockMode = iota
	// LockTrack derives ownership from the hook events alone and never
	// touches the real lock, so that the scheduler adds no synchronisation
	// the race detector could see.  Used in the race build.  On code whose
	// locks are intact both modes yield the same enabled sets.
	LockTrack
)

type note struct {
	point string
	obj   any
}

type task struct {
	id   int
	fn   func(t *TaskCtx)
	done bool

	// mailbox, written by the task goroutine right before it notifies
	point string
	obj   any
	n     int64
	notes [16]note
	nn    int

	panicked bool
	panicVal string

	goid string  // runtime goroutine id, for the blocked-state test
	g    uintptr // goroutine identity, to tell the task from goroutines it spawns

	// self-probe command and answer (see selfProbe)
	cmdProbe bool
	probeOK  bool

	// scheduler-private
	pid      int   // point id of the mailbox
	missIdx  int64 // storage index this task is materialising, valid if inMiss
	inMiss   bool
	prio     int
	holds    int // locks this task holds according to the hook events
	released int // how often the scheduler has let this task run
	lastRun  int // step at which it was last released
	finished chan struct{}
}

//go:norace
func (t *task) setIdentity(goid string, g uintptr) { t.goid, t.g = goid, g }

//go:norace
func (t *task) goroutineID() string { return t.goid }

// TaskCtx is handed to task bodies.
type TaskCtx struct {
	ID int
	s  *Sched
}

// Yield is a scheduling point inserted by the harness itself, between two
// operations of a task.
func (c *TaskCtx) Yield() { c.s.yieldHook("op", nil, 0) }

// Now returns the index of the scheduling step during which the caller runs:
// the simulator's global event sequence number.  Two tasks never share a
// step, so "a returned in a step before the one b was invoked in" is exactly
// the real-time order of the simulated execution.
//
//go:norace
func (c *TaskCtx) Now() int { return c.s.step }

// Event is one scheduling step: task ran from its previous point until it
// parked at Point.
type Event struct {
	Task  uint8
	Point uint8
	Obj   uint16
}

// Strategy kinds.
const (
	StratRandom = iota
	StratSticky
	StratPCT
	StratHerd
	numStrats
)

// SchedConfig is drawn by the property code through the Chooser.
type SchedConfig struct {
	Strategy   int
	StickyPct  int // StratSticky: probability (percent) to stay with the running task
	PCTDepth   int // StratPCT
	PCTHorizon int
	HerdPoint  int // StratHerd: point id to gather tasks at
	StepCap    int
	// Speculate marks a run in which the scheduler once releases a task that
	// is parked in front of a HELD lock (see speculate).
	Speculate bool
}

// DrawSchedConfig draws a scheduling strategy (swarm style: one per run).
func DrawSchedConfig(ch *Chooser, horizon int) SchedConfig {
	c := SchedConfig{PCTHorizon: horizon}
	c.Strategy = ch.Intn("sched.strategy", numStrats)
	c.StickyPct = []int{50, 80, 95}[ch.Intn("sched.stickypct", 3)]
	c.PCTDepth = 1 + ch.Intn("sched.pctdepth", 3)
	c.Speculate = ch.Intn("sched.speculate", 50) == 49
	c.HerdPoint = []int{PStorageMiss, PStorageLock, PFileLock, PFileSeekRead, PRuleCompile, PPoolGet, PStorageRLock, PLookupRetrieved}[ch.Intn("sched.herdpoint", 8)]
	return c
}

// Probes are "this rare condition was reached" counters.
type Probes struct {
	DoubleMiss         int // a task started materialising an index another task is materialising
	SeekReadContended  int // a task was disabled at file.lock while another sat between Seek and readLine
	RuleLockContended  int // a task was disabled at rule.lock
	CacheLockContended int
	PoolHandoff        int // a pooled request object was seen by two different tasks
	Preemptions        int // scheduling steps that switched task while the previous one was still enabled
	MaxEnabled         int
	SpecPassed         int // a task released in front of a held lock did NOT block: the code made a non-blocking attempt
	TrackingCorrected  int // tracking said "held" but the real lock was free (code unlocks earlier than its hooks say)
	InFlightAtFault    int
	FairPhase          int // the step cap was reached under an unfair strategy and the run continued least-recently-run
}

// RunResult is what a scheduled execution produced.
type RunResult struct {
	Steps    int
	Deadlock bool
	StepCap  bool
	// SpecBlocked: a speculative release blocked for real (what intact code
	// does); the run was abandoned and must be discarded.
	SpecBlocked bool
	// SpecSkipped: the run is a speculative one but this mode cannot
	// speculate; it was not executed.
	SpecSkipped bool
	// UnhookedBlock: a released task blocked in a lock (or channel) that has
	// no scheduling point in front of it; the run was abandoned.
	UnhookedBlock bool
	// FreeRunDeadlock: after the run was abandoned and every task was left
	// to run freely, all unfinished tasks ended up blocked on locks.
	FreeRunDeadlock bool
	// Leaked: the tasks of an abandoned run could not be finished and were
	// left parked (race build).
	Leaked      bool
	Panics      []string // "task N: value\nstack"
	TraceHash   uint64
	Trace       []Event
	Probes      Probes
	StateHashes []uint64
}

// Sched is the cooperative scheduler.  Run executes on the caller's
// goroutine, which is "the scheduler"; the tasks are real goroutines of which
// exactly one is runnable at any time.
type Sched struct {
	Gate     Gate
	LockMode LockMode
	Ch       *Chooser
	Cfg      SchedConfig
	// KeepTrace retains the full event list (replay files / samples).
	KeepTrace bool
	// OnDecision runs before every scheduling decision, while every task is
	// parked: fault injection and step invariants live here.  inflight is
	// the number of tasks parked inside an operation (not at start/op/done).
	OnDecision func(step int, inflight int)
	// StateExtra is mixed into the abstract state hash (e.g. cache size).
	StateExtra func() uint64
	// Gate2 is an extra enabling condition per task id (nil = always): a
	// fault task is not enabled before its instant.  Urgent tasks are run as
	// soon as they are enabled, without a scheduling choice.
	Gate2  map[int]func(step int) bool
	Urgent map[int]bool

	tasks  []*task
	cur    *task
	inTask bool
	step   int
	// freeRun turns every hook into a no-op: used to let the tasks of an
	// abandoned run finish on their own so that nothing is leaked
	curStep  int
	freeRun  bool
	specDone bool
	cancel   bool
	leaked   bool

	// lock tracking (LockTrack)
	mutexHeld map[any]int // obj -> task id
	rwWriter  map[any]int
	rwReaders map[any]int

	// probeMemo: locks confirmed held by a delegated probe; valid until a
	// task that holds some lock runs again
	probeMemo map[any]bool
	objIDs    map[any]uint16
	poolSeen  map[any]int

	res       RunResult
	pctChange []int
}

// Hooks returns the two callbacks to install into the library.
func (s *Sched) Hooks() (yield func(string, any, int64), note func(string, any)) {
	return s.yieldHook, s.noteHook
}

//go:norace
func (s *Sched) yieldHook(point string, obj any, n int64) {
	if !s.inTask || s.freeRun {
		return
	}
	t := s.cur
	if getg() != t.g {
		// a goroutine spawned by the library inside a query: it belongs to
		// the running task's step and is not scheduled on its own
		ForeignHookCalls.Add(1)
		return
	}
	if point == "auto.lock" || point == "auto.rlock" {
		// astyield passes &recv; the receiver variable belongs to this
		// task, so it is dereferenced here, on the task's own goroutine:
		// the scheduler must never read task-owned memory (under the race
		// detector that would be reported, rightly, as a race)
		obj = derefLock(obj)
		if obj != nil && reflect.ValueOf(obj).Kind() != reflect.Ptr {
			obj = nil
		}
	}
	t.point, t.obj, t.n = point, obj, n
	s.Gate.Notify()
	for {
		s.Gate.Park(t.id)
		if !t.cmdProbe || s.freeRun {
			return
		}
		t.cmdProbe = false
		t.probeOK = realProbe(obj, point == "storage.rlock" || point == "auto.rlock")
		s.Gate.Notify()
	}
}

//go:norace
func (s *Sched) noteHook(point string, obj any) {
	if !s.inTask || s.freeRun {
		return
	}
	t := s.cur
	if getg() != t.g {
		return
	}
	if t.nn >= len(t.notes) {
		panic("verifsim: note overflow")
	}
	t.notes[t.nn] = note{point, obj}
	t.nn++
}

//go:norace
func (s *Sched) taskExit(t *task, pv any) {
	if pv != nil {
		t.panicked = true
		t.panicVal = fmt.Sprintf("%v\n%s", pv, debug.Stack())
	}
	t.point, t.obj, t.n = "done", nil, 0
	t.done = true
}

//go:norace
func (s *Sched) release(t *task) bool {
	s.cur = t
	s.inTask = true
	s.Gate.Wake(t.id)
	ok := s.waitTask(t)
	s.inTask = false
	return ok
}

//go:norace
func (s *Sched) readMailbox(t *task) (point string, obj any, n int64, notes []note, done bool) {
	notes = append(notes, t.notes[:t.nn]...)
	t.nn = 0
	return t.point, t.obj, t.n, notes, t.done
}

// Run starts one goroutine per body and schedules them to completion.
func (s *Sched) Run(bodies []func(t *TaskCtx)) *RunResult {
	n := len(bodies)
	if n > 250 {
		panic("too many tasks")
	}
	s.tasks = make([]*task, n)
	s.mutexHeld = map[any]int{}
	s.rwWriter = map[any]int{}
	s.rwReaders = map[any]int{}
	s.objIDs = map[any]uint16{}
	s.probeMemo = map[any]bool{}
	s.poolSeen = map[any]int{}
	s.res = RunResult{}
	if err := s.Gate.Init(n); err != nil {
		panic("verifsim: gate init: " + err.Error())
	}
	defer func() {
		if !s.leaked {
			s.Gate.Close()
		}
	}()

	var wg sync.WaitGroup
	for i := range bodies {
		t := &task{id: i, fn: bodies[i], point: "start", pid: PStart, finished: make(chan struct{})}
		s.tasks[i] = t
		wg.Add(1)
		go func() {
			t.setIdentity(curGoid(), getg())
			s.Gate.Park(t.id)
			if s.cancelled() {
				s.taskExit(t, nil)
				close(t.finished)
				wg.Done()
				s.Gate.Notify()
				return
			}
			defer func() {
				s.taskExit(t, recover())
				// A real release: lets the scheduler goroutine read what
				// this task wrote (its results) without a harness race.
				// Tasks never acquire from it, so it orders no two tasks.
				close(t.finished)
				wg.Done()
				s.Gate.Notify()
			}()
			t.fn(&TaskCtx{ID: t.id, s: s})
		}()
	}

	// PCT: random priorities and priority-change points, all drawn up front.
	if s.Cfg.Strategy == StratPCT {
		perm := make([]int, n)
		for i := range perm {
			perm[i] = i
		}
		for i := n - 1; i > 0; i-- {
			j := s.Ch.Intn("pct.perm", i+1)
			perm[i], perm[j] = perm[j], perm[i]
		}
		for i, t := range s.tasks {
			t.prio = perm[i] + s.Cfg.PCTDepth
		}
		h := s.Cfg.PCTHorizon
		if h < 2 {
			h = 2
		}
		for d := 0; d < s.Cfg.PCTDepth-1; d++ {
			s.pctChange = append(s.pctChange, s.Ch.Intn("pct.change", h))
		}
	}

	hash := uint64(14695981039346656037)
	mix := func(v uint64) {
		for i := 0; i < 8; i++ {
			hash ^= v & 0xff
			hash *= 1099511628211
			v >>= 8
		}
	}

	unfinished := n
	var last *task
	enabled := make([]*task, 0, n)
	var lockWait, gated []*task
	step := 0
	fairFrom := 0
	if s.Cfg.Speculate && !s.canSpeculate() {
		// hand the never-started tasks a free run so that they end
		s.res.SpecSkipped = true
		s.cancelAll(unfinished)
		wg.Wait()
		return &s.res
	}
	for unfinished > 0 {
		Heartbeat.Add(1)
		s.curStep = step
		enabled = enabled[:0]
		lockWait = lockWait[:0]
		gated = gated[:0]
		inflight := 0
		// The running task first, then ascending ids: choice 0 = "do not
		// preempt", which is what zeroing a choice means to the shrinker.
		classify := func(t *task) {
			if s.guard(t) {
				enabled = append(enabled, t)
				return
			}
			if t.pid == PStart || t.pid == POp {
				// held back by its Gate2 (a fault task before its instant)
				gated = append(gated, t)
				return
			}
			lockWait = append(lockWait, t)
			switch t.pid {
			case PFileLock:
				s.res.Probes.SeekReadContended++
			case PRuleLock:
				s.res.Probes.RuleLockContended++
			case PStorageLock, PStorageRLock:
				s.res.Probes.CacheLockContended++
			}
		}
		if last != nil && !last.done {
			classify(last)
		}
		for _, t := range s.tasks {
			if t.done {
				continue
			}
			if t.pid != PStart && t.pid != POp {
				inflight++
			}
			if t == last {
				continue
			}
			classify(t)
		}
		if len(enabled) == 0 && len(lockWait) == 0 && len(gated) > 0 {
			// everybody else is done: a gated task runs now
			enabled = append(enabled, gated...)
		}
		if len(enabled) == 0 {
			s.res.Deadlock = true
			break
		}
		if len(enabled) > s.res.Probes.MaxEnabled {
			s.res.Probes.MaxEnabled = len(enabled)
		}
		if s.OnDecision != nil {
			s.OnDecision(step, inflight)
		}
		// abstract state: where every task is parked, plus caller extras
		sh := uint64(1469598103934665603)
		for _, t := range s.tasks {
			sh = (sh ^ uint64(t.pid+1)) * 1099511628211
		}
		if s.StateExtra != nil {
			sh = (sh ^ s.StateExtra()) * 1099511628211
		}
		s.res.StateHashes = append(s.res.StateHashes, sh)

		if s.Cfg.Speculate && !s.specDone && len(lockWait) > 0 && s.Ch.Intn("spec.now", 3) == 2 {
			// once per speculative run: release a task although the lock
			// in front of it is held
			s.specDone = true
			t := lockWait[s.Ch.Intn("spec.pick", len(lockWait))]
			if !s.speculate(t) {
				s.res.SpecBlocked = true
				if !s.abandon(unfinished, t) {
					s.res.Deadlock = true
					s.res.FreeRunDeadlock = true
				}
				s.res.Steps = step
				s.acquireDone()
				return &s.res
			}
			s.res.Probes.SpecPassed++
			// it did not block: from here on it is an ordinary step of t
			// (the lock it skipped is somebody else's: no acquire)
			point, obj, nval, notes, done := s.readMailbox(t)
			_ = obj
			_ = nval
			for _, nt := range notes {
				s.applyNote(t, nt)
			}
			t.pid = pointID(point)
			mix(uint64(t.id) | uint64(t.pid)<<8 | 0xee<<16)
			if done {
				unfinished--
				if t.panicked {
					s.res.Panics = append(s.res.Panics, fmt.Sprintf("task %d: %s", t.id, t.panicVal))
				}
			}
			last = t
			step++
			continue
		}
		var t *task
		for _, u := range enabled {
			if s.Urgent[u.id] {
				t = u
				break
			}
		}
		if t == nil && fairFrom > 0 {
			// fair phase (see the step cap below): least recently run first
			t = enabled[0]
			for _, u := range enabled[1:] {
				if u.lastRun < t.lastRun || (u.lastRun == t.lastRun && u.id < t.id) {
					t = u
				}
			}
		}
		if t == nil {
			t = s.pick(enabled, last, step)
		}
		t.lastRun = step
		if last != nil && t != last && len(enabled) > 0 && enabled[0] == last {
			s.res.Probes.Preemptions++
		}
		if t.holds > 0 && len(s.probeMemo) > 0 {
			s.probeMemo = map[any]bool{}
		}
		s.acquire(t)
		s.step = step
		t.released++
		if !s.release(t) {
			// the task sits in a lock (or another blocking operation) that
			// has no scheduling point in front of it: this schedule cannot
			// be continued under the scheduler's control
			s.res.UnhookedBlock = true
			if !s.abandon(unfinished, t) {
				s.res.Deadlock = true
				s.res.FreeRunDeadlock = true
			}
			s.res.Steps = step
			s.acquireDone()
			return &s.res
		}

		point, obj, nval, notes, done := s.readMailbox(t)
		for _, nt := range notes {
			s.applyNote(t, nt)
		}
		pid := pointID(point)
		if pid < 0 {
			panic("verifsim: unknown hook point " + point)
		}
		t.pid = pid
		oid := uint16(0)
		if obj != nil && pid != PPoolGet && pid != PPoolPut {
			// (which pooled object a query gets is not the program's
			// decision -- sync.Pool drops objects at will, and randomly so
			// under the race detector -- so pooled objects get no id)
			var ok bool
			if oid, ok = s.objIDs[obj]; !ok {
				oid = uint16(len(s.objIDs) + 1)
				s.objIDs[obj] = oid
			}
		}
		switch pid {
		case PStorageMiss:
			for _, o := range s.tasks {
				if o != t && !o.done && o.inMiss && o.missIdx == nval {
					s.res.Probes.DoubleMiss++
					break
				}
			}
			t.inMiss, t.missIdx = true, nval
		case PLookupRetrieved, POp, PDone:
			t.inMiss = false
		case PPoolGet:
			if prev, ok := s.poolSeen[obj]; ok && prev != t.id {
				s.res.Probes.PoolHandoff++
			}
			s.poolSeen[obj] = t.id
		}
		ev := Event{Task: uint8(t.id), Point: uint8(pid), Obj: oid}
		mix(uint64(ev.Task) | uint64(ev.Point)<<8 | uint64(ev.Obj)<<16)
		if pid == PStorageMiss {
			mix(uint64(nval))
		}
		if s.KeepTrace {
			s.res.Trace = append(s.res.Trace, ev)
		}
		if done {
			unfinished--
			if t.panicked {
				s.res.Panics = append(s.res.Panics, fmt.Sprintf("task %d: %s", t.id, t.panicVal))
			}
		}
		last = t
		step++
		if s.Cfg.StepCap > 0 && step >= s.Cfg.StepCap && unfinished > 0 && fairFrom == 0 {
			// An unfair strategy (sticky, PCT) may keep releasing a task
			// that legitimately waits for another one in a retry loop.
			// Bounded progress is demanded of a FAIR schedule only: go on
			// least-recently-run for as many steps again.
			fairFrom = step
			s.res.Probes.FairPhase++
		}
		if fairFrom > 0 && step >= 2*s.Cfg.StepCap && unfinished > 0 {
			s.res.StepCap = true
			break
		}
	}
	s.res.Steps = step
	s.res.TraceHash = hash
	if !s.res.Deadlock && !s.res.StepCap {
		wg.Wait()
	} else {
		for _, t := range s.tasks {
			if t.done {
				<-t.finished
			}
		}
	}
	return &s.res
}

// Released reports how often task i has been let run so far (scheduler side).
func (s *Sched) Released(i int) int { return s.tasks[i].released }

// acquireDone orders the caller after every task that has finished (a real
// acquire of what the task released when it ended): whatever finished tasks
// wrote may be read afterwards, also when the run was abandoned.
func (s *Sched) acquireDone() {
	for _, t := range s.tasks {
		if s.taskDone(t) {
			<-t.finished
		}
	}
}

// TaskDone reports whether task i ran to completion (its results may be
// read).  Only meaningful after Run returned.
func (s *Sched) TaskDone(i int) bool { return s.tasks[i].done }

type tryLocker interface {
	TryLock() bool
	Unlock()
}
type tryRLocker interface {
	TryRLock() bool
	RUnlock()
}

// guard reports whether t may be released without blocking for real.
func (s *Sched) guard(t *task) bool {
	if g := s.Gate2[t.id]; g != nil && (t.pid == PStart || t.pid == POp) && !g(s.curStep) {
		return false
	}
	switch t.pid {
	case PStorageRLock, PStorageLock, PFileLock, PRuleLock:
	case PAutoLock, PAutoRLock:
		// a lock the hand-placed hooks do not know: no ownership tracking
		// is possible, the real lock is probed - by the scheduler in the
		// plain build, by the parked task itself in the race build
		if t.obj == nil {
			return true
		}
		if s.LockMode == LockProbe {
			return realProbe(t.obj, t.pid == PAutoRLock)
		}
		return s.selfProbe(t)
	default:
		return true
	}
	obj := t.obj
	if obj == nil {
		return true
	}
	if s.LockMode == LockProbe {
		return realProbe(obj, t.pid == PStorageRLock)
	}
	held := false
	switch t.pid {
	case PStorageRLock:
		_, w := s.rwWriter[obj]
		held = w
	case PStorageLock:
		_, w := s.rwWriter[obj]
		held = w || s.rwReaders[obj] != 0
	default:
		_, held = s.mutexHeld[obj]
	}
	if !held {
		return true
	}
	if s.probeMemo[obj] {
		// confirmed held since, and no lock holder has run in between:
		// nothing can have been released
		return false
	}
	// The hook events say the lock is held.  On code whose locking matches
	// its hooks that is the truth, the confirmation below fails without
	// touching any race-detector state (a failed TryLock synchronises
	// nothing), and the task stays disabled.  If a change made the code
	// release the lock earlier than its hooks say, the confirmation succeeds
	// and the task is enabled, exactly as the probing mode would do.  The
	// confirmation is performed by the parked task itself, so the scheduler
	// goroutine never acquires anybody's vector clock.
	if s.selfProbe(t) {
		s.res.Probes.TrackingCorrected++
		switch t.pid {
		case PStorageRLock, PStorageLock:
			delete(s.rwWriter, obj)
			if t.pid == PStorageLock {
				delete(s.rwReaders, obj)
			}
		default:
			delete(s.mutexHeld, obj)
		}
		return true
	}
	s.probeMemo[obj] = true
	return false
}

// derefLock turns the &recv that astyield passes (a pointer to a pointer, or
// to an interface, for receivers that are pointers or interfaces themselves)
// into the lock value.
func derefLock(obj any) any {
	v := reflect.ValueOf(obj)
	for v.Kind() == reflect.Ptr && !v.IsNil() && (v.Elem().Kind() == reflect.Ptr || v.Elem().Kind() == reflect.Interface) {
		v = v.Elem()
		if v.Kind() == reflect.Interface {
			v = v.Elem()
		}
	}
	if !v.IsValid() || !v.CanInterface() {
		return obj
	}
	return v.Interface()
}

func realProbe(obj any, read bool) bool {
	if read {
		if l, ok := obj.(tryRLocker); ok {
			if !l.TryRLock() {
				return false
			}
			l.RUnlock()
		}
		return true
	}
	if l, ok := obj.(tryLocker); ok {
		if !l.TryLock() {
			return false
		}
		l.Unlock()
	}
	return true
}

// selfProbe lets the parked task itself probe the lock it is parked in front
// of, on its own goroutine, and park again.  The task reached the lock
// through the program's own synchronisation, so its TryLock is ordered after
// the lock's creation exactly as its real Lock would be (a probe from any
// other goroutine would be reported as racing with the initialisation of a
// lock created by a task); a failed TryLock synchronises nothing.
func (s *Sched) selfProbe(t *task) bool {
	s.sendProbe(t)
	return s.probeResult(t)
}

//go:norace
func (s *Sched) sendProbe(t *task) {
	t.cmdProbe = true
	s.Gate.Wake(t.id)
	s.Gate.WaitNotify()
}

//go:norace
func (s *Sched) probeResult(t *task) bool { return t.probeOK }

// acquire records, for LockTrack, that t is about to take the lock it is
// parked in front of.  It is also maintained in LockProbe mode (cheap), where
// it is only used for cross-checking.
func (s *Sched) acquire(t *task) {
	if t.obj == nil {
		return
	}
	switch t.pid {
	case PStorageRLock:
		s.rwReaders[t.obj]++
		t.holds++
	case PStorageLock:
		s.rwWriter[t.obj] = t.id
		t.holds++
	case PFileLock, PRuleLock:
		s.mutexHeld[t.obj] = t.id
		t.holds++
	}
}

func (s *Sched) applyNote(t *task, nt note) {
	if t.holds > 0 {
		t.holds--
	}
	switch nt.point {
	case "storage.runlocked":
		if s.rwReaders[nt.obj] > 0 {
			s.rwReaders[nt.obj]--
		}
	case "storage.unlocked":
		delete(s.rwWriter, nt.obj)
	case "file.unlocked", "rule.unlocked":
		delete(s.mutexHeld, nt.obj)
	default:
		panic("verifsim: unknown note " + nt.point)
	}
}

func (s *Sched) pick(enabled []*task, last *task, step int) *task {
	k := len(enabled)
	switch s.Cfg.Strategy {
	case StratSticky:
		if k > 1 && enabled[0] == last {
			if s.Ch.Intn("sched.leave", 100) < s.Cfg.StickyPct {
				return enabled[0]
			}
			return enabled[1+s.Ch.Intn("sched.pick", k-1)]
		}
		return enabled[s.Ch.Intn("sched.pick", k)]
	case StratPCT:
		for ci, c := range s.pctChange {
			if c == step && last != nil {
				// change point: the running task drops below every initial
				// priority (those are >= PCTDepth)
				last.prio = s.Cfg.PCTDepth - 1 - ci
			}
		}
		best := enabled[0]
		for _, t := range enabled[1:] {
			if t.prio > best.prio || (t.prio == best.prio && t.id < best.id) {
				best = t
			}
		}
		return best
	case StratHerd:
		// Prefer tasks that have not yet reached the gathering point; once
		// nobody else can move, let the herd go in random order.
		var away []*task
		for _, t := range enabled {
			if t.pid != s.Cfg.HerdPoint {
				away = append(away, t)
			}
		}
		if len(away) > 0 && s.Ch.Intn("herd.break", 16) != 0 {
			return away[s.Ch.Intn("sched.pick", len(away))]
		}
		return enabled[s.Ch.Intn("sched.pick", k)]
	default:
		return enabled[s.Ch.Intn("sched.pick", k)]
	}
}

// canSpeculate: the blocked-state test below is only reliable with the
// channel gate on a single P without the race detector.
func (s *Sched) canSpeculate() bool {
	_, ok := s.Gate.(*ChanGate)
	return ok && s.LockMode == LockProbe && runtime.GOMAXPROCS(0) == 1
}

func curGoid() string {
	var buf [64]byte
	n := runtime.Stack(buf[:], false)
	f := strings.Fields(string(buf[:n]))
	if len(f) >= 2 {
		return f[1]
	}
	return ""
}

// goroutineState returns the bracketed wait state of goroutine id from a
// full stack dump, e.g. "sync.Mutex.Lock", "chan send", "runnable".
func goroutineState(id string) string {
	buf := make([]byte, 1<<16)
	for {
		n := runtime.Stack(buf, true)
		if n < len(buf) {
			buf = buf[:n]
			break
		}
		buf = make([]byte, 2*len(buf))
	}
	hdr := "goroutine " + id + " ["
	i := strings.Index(string(buf), hdr)
	if i < 0 {
		return ""
	}
	rest := string(buf[i+len(hdr):])
	j := strings.IndexByte(rest, ']')
	if j < 0 {
		return ""
	}
	return rest[:j]
}

// speculate releases t although the lock it is parked in front of is held by
// a parked task.  The scheduler normally never does that, because a blocking
// Lock would then block for ever; the price is that a NON-blocking attempt
// (TryLock: "skip the cache if it is busy") is never seen to fail.  Here the
// task is released anyway and the scheduler yields the only P to it
// (GOMAXPROCS is 1): when control comes back the task has either parked at
// its next yield point - it did not block, the run goes on - or it is blocked
// in the lock, which the runtime's own goroutine state says reliably.  In the
// latter case (what intact code does) the run is abandoned: all hooks become
// no-ops, every task runs to completion on its own, nothing is leaked, and
// the run is discarded - never reported.
func (s *Sched) speculate(t *task) bool {
	s.cur = t
	s.inTask = true
	s.Gate.Wake(t.id)
	ok := s.waitTask(t)
	s.inTask = false
	return ok
}

func blockedState(st string) bool {
	return strings.HasPrefix(st, "sync.") || strings.HasPrefix(st, "semacquire") ||
		strings.HasPrefix(st, "chan receive") || strings.HasPrefix(st, "select") || strings.HasPrefix(st, "chan send")
}

//go:norace
func (s *Sched) cancelled() bool { return s.cancel }

// waitTask waits for the notification of the released task t.  It returns
// false if t is found blocked inside a synchronisation primitive instead:
// the runtime's own goroutine state ("sync.Mutex.Lock", "sync.RWMutex.RLock",
// "semacquire", a foreign channel operation) is the test, so the verdict does
// not depend on timing.
func (s *Sched) waitTask(t *task) bool {
	switch g := s.Gate.(type) {
	case *ChanGate:
		if runtime.GOMAXPROCS(0) != 1 {
			g.WaitNotify()
			return true
		}
		// One P: after Gosched the released task has run until it blocked.
		// Either its notification is waiting in the channel, or it is
		// blocked elsewhere (or was preempted, or sits in a system call:
		// then the loop simply yields again).
		strikes := 0
		for {
			select {
			case <-g.sched:
				return true
			default:
			}
			runtime.Gosched()
			select {
			case <-g.sched:
				return true
			default:
			}
			if blockedState(goroutineState(t.goroutineID())) {
				// "chan receive" would also be our own Park, but Park is
				// always preceded by the notification just looked for
				select {
				case <-g.sched:
					return true
				default:
				}
				// The task may be waiting for goroutines the library
				// started itself (WaitGroup.Wait, a reply channel): those
				// are runnable and get the P during the next Gosched.  A
				// task that waits for a lock held by a PARKED task stays
				// where it is however often the others run.
				if strikes++; strikes >= 4 {
					return false
				}
			} else {
				strikes = 0
			}
		}
	case *PipeGate:
		strikes := 0
		for {
			if pollIn(g.schedR, 250) {
				g.WaitNotify()
				return true
			}
			if blockedState(goroutineState(t.goroutineID())) {
				strikes++
				if strikes >= 2 && !pollIn(g.schedR, 0) {
					return false
				}
			} else {
				strikes = 0
			}
		}
	default:
		s.Gate.WaitNotify()
		return true
	}
}

// cancelAll ends tasks that have not started yet without running them.
func (s *Sched) cancelAll(n int) {
	s.setCancel()
	for _, t := range s.tasks {
		s.Gate.Wake(t.id)
	}
	for i := 0; i < n; i++ {
		s.Gate.WaitNotify()
	}
}

//go:norace
func (s *Sched) setCancel() { s.cancel = true }

// abandon gives up control of a run that cannot be continued under the
// scheduler.  Plain build: every hook becomes a no-op and every task is left
// to run to completion on its own (a real, uncontrolled execution), so that
// nothing is leaked; if instead all unfinished tasks end up blocked on locks
// the function returns false: a real deadlock of the code under test.  Race
// build: the tasks are left parked for ever (a free run under the detector
// would produce unreplayable reports) and the gate is not closed.
// blocked is the task that sits in a real lock (it needs no wake-up).
func (s *Sched) abandon(unfinished int, blocked *task) bool {
	g, isChan := s.Gate.(*ChanGate)
	if !isChan || runtime.GOMAXPROCS(0) != 1 {
		s.leaked = true
		s.res.Leaked = true
		return true
	}
	s.freeRun = true
	s.inTask = true
	defer func() { s.inTask = false }()
	for _, t := range s.tasks {
		if t.done || t == blocked {
			continue
		}
		// every other task is parked in, or on its way into, Park: a
		// blocking wake-up reaches it either way
		g.Wake(t.id)
	}
	remaining := unfinished
	strikes := 0
	for remaining > 0 {
		select {
		case <-g.sched:
			remaining--
			strikes = 0
			continue
		default:
		}
		runtime.Gosched()
		select {
		case <-g.sched:
			remaining--
			strikes = 0
			continue
		default:
		}
		// A deadlock means that NO goroutine of the program can run any
		// more - not only the tasks: a task may be waiting (WaitGroup) for
		// goroutines the library started itself, and those may be busy.
		all := !anyGoroutineAlive()
		if all {
			strikes++
			if strikes >= 5 {
				return false
			}
			time.Sleep(20 * time.Millisecond)
		} else {
			strikes = 0
		}
	}
	return true
}

//go:norace
func (s *Sched) taskDone(t *task) bool { return t.done }

// anyGoroutineAlive reports whether some goroutine other than the caller and
// the harness's own sleeping watchdog is runnable, running, in a system call
// or waiting for I/O or a timer - anything but parked on a lock or channel.
func anyGoroutineAlive() bool {
	buf := make([]byte, 1<<18)
	for {
		n := runtime.Stack(buf, true)
		if n < len(buf) {
			buf = buf[:n]
			break
		}
		buf = make([]byte, 2*len(buf))
	}
	blocks := strings.Split(string(buf), "\n\n")
	for i, b := range blocks {
		if i == 0 {
			continue // the caller
		}
		if !strings.HasPrefix(b, "goroutine ") {
			continue
		}
		j := strings.IndexByte(b, '[')
		k := strings.IndexByte(b, ']')
		if j < 0 || k < j {
			continue
		}
		st := b[j+1 : k]
		if strings.Contains(b, "main.watchdog") {
			continue
		}
		if !blockedState(st) {
			return true
		}
	}
	return false
}
