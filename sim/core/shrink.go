package core

// ExecFn executes a candidate script and reports the violation class it
// produced ("" if none), together with the values actually consumed and the
// element spans of that execution.
type ExecFn func(script []int) (class string, values []int, spans []Span)

// Shrink minimises script while the execution keeps producing a violation of
// class want.  It is the Hypothesis idea applied to the choice log, so plan,
// schedule and fault placement shrink together: delete element spans (whole
// rules, requests, tasks, operations), delete blocks, zero values (scheduler
// choice 0 = "keep running the same task", so zeroing removes preemptions),
// then lower values.  Returns the smallest script found and the number of
// executions spent.
func Shrink(script []int, want string, exec ExecFn, budget int) (best []int, execs int) {
	same := func(class string) bool { return SameClass(class, want) }
	best = append([]int(nil), script...)
	var spans []Span
	try := func(cand []int) bool {
		if execs >= budget {
			return false
		}
		execs++
		class, values, sp := exec(cand)
		if !same(class) {
			return false
		}
		// normalise to what the execution really consumed
		if len(values) <= len(cand) {
			cand = values
		}
		best = append(best[:0:0], cand...)
		spans = sp
		return true
	}
	// establish spans of the starting point (and normalise it)
	if !try(best) {
		return script, execs
	}
	for round := 0; round < 6 && execs < budget; round++ {
		before := len(best)
		sumBefore := sum(best)

		// 1. delete spans, big ones first
		for changed := true; changed && execs < budget; {
			changed = false
			order := append([]Span(nil), spans...)
			sortSpans(order)
			for _, sp := range order {
				if sp.End > len(best) || sp.End <= sp.Start {
					continue
				}
				cand := append(append([]int(nil), best[:sp.Start]...), best[sp.End:]...)
				if try(cand) {
					changed = true
					break
				}
				if execs >= budget {
					break
				}
			}
		}
		// 2. delete blocks of decreasing size from the back
		for size := len(best) / 2; size >= 1 && execs < budget; size /= 2 {
			for start := len(best) - size; start >= 0 && execs < budget; {
				cand := append(append([]int(nil), best[:start]...), best[start+size:]...)
				if try(cand) {
					if start > len(best)-size {
						start = len(best) - size
					}
					continue
				}
				start -= size
			}
		}
		// 3. zero blocks, then single values
		for size := len(best) / 2; size >= 1 && execs < budget; size /= 2 {
			for start := 0; start+size <= len(best) && execs < budget; start += size {
				allZero := true
				for _, v := range best[start : start+size] {
					if v != 0 {
						allZero = false
					}
				}
				if allZero {
					continue
				}
				cand := append([]int(nil), best...)
				for i := start; i < start+size; i++ {
					cand[i] = 0
				}
				try(cand)
			}
		}
		// 4. lower values
		for i := 0; i < len(best) && execs < budget; i++ {
			for best[i] > 0 && execs < budget {
				cand := append([]int(nil), best...)
				cand[i] = best[i] / 2
				if !try(cand) {
					cand[i] = best[i] - 1
					if cand[i] == best[i]/2 || !try(cand) {
						break
					}
				}
				if i >= len(best) {
					break
				}
			}
		}
		if len(best) == before && sum(best) == sumBefore {
			break
		}
	}
	return best, execs
}

func sum(xs []int) (s int) {
	for _, x := range xs {
		s += x
	}
	return s
}

func sortSpans(sp []Span) {
	// insertion sort by length, descending; stable; spans are few
	for i := 1; i < len(sp); i++ {
		for j := i; j > 0 && sp[j].End-sp[j].Start > sp[j-1].End-sp[j-1].Start; j-- {
			sp[j], sp[j-1] = sp[j-1], sp[j]
		}
	}
}

// SameClass reports whether two violation classes denote the same violation
// for the purposes of confirmation and shrinking.  Race reports are compared
// by kind only: which pair of conflicting accesses the detector names for a
// given schedule depends on which earlier accesses its bounded shadow memory
// happens to retain, so the pair may differ between two processes although
// the schedule, and the presence of a race, are identical.
func SameClass(a, b string) bool {
	if len(a) >= 5 && len(b) >= 5 && a[:5] == "race:" && b[:5] == "race:" {
		return true
	}
	return a == b
}
