// Command astyield inserts scheduling points in front of synchronisation
// operations that have none, in a SCRATCH COPY of the library (never in /repo).
//
// The hand-placed hooks in /repo cover the synchronisation sites the library
// has today.  A change under test may add sites of its own (a memo guarded by
// a new mutex, a pair of atomics, a sync.Once): without a scheduling point in
// front of them the cooperative scheduler can never interleave two tasks
// there, and a logically wrong but race-free protocol goes unnoticed.  This
// tool finds such calls syntactically and puts `verifhook.Y("auto", nil)`
// (or `verifhook.Y("auto.lock", &recv)` for lock acquisitions, so that the
// scheduler can probe the real lock) in front of the enclosing statement.
//
// It is deliberately conservative: a site is skipped when the enclosing
// function already passes the same receiver to a hand-placed hook, deferred
// calls are skipped, and only statements that sit directly in a block are
// touched.  If the instrumented copy does not build, check.sh falls back to
// the uninstrumented tree.
package main

import (
	"bytes"
	"fmt"
	"go/ast"
	"go/format"
	"go/parser"
	"go/printer"
	"go/token"
	"os"
	"path/filepath"
	"strings"
)

const hookPkg = "github.com/AdguardTeam/urlfilter/internal/verifhook"

var pkgs = []string{".", "filterlist", "lookup", "rules", "filterutil"}

func main() {
	if len(os.Args) != 2 {
		fmt.Fprintln(os.Stderr, "usage: astyield <copy-of-repo>")
		os.Exit(2)
	}
	root := os.Args[1]
	total := 0
	for _, p := range pkgs {
		files, _ := filepath.Glob(filepath.Join(root, p, "*.go"))
		for _, f := range files {
			base := filepath.Base(f)
			if strings.HasSuffix(base, "_test.go") || strings.HasPrefix(base, "verif") {
				continue
			}
			n, err := instrument(f)
			if err != nil {
				fmt.Fprintf(os.Stderr, "astyield: %s: %v\n", f, err)
				os.Exit(1)
			}
			total += n
		}
	}
	fmt.Printf("astyield: %d scheduling points inserted\n", total)
}

func exprString(fset *token.FileSet, e ast.Expr) string {
	var b bytes.Buffer
	printer.Fprint(&b, fset, e)
	return b.String()
}

// pureChain reports whether e is an identifier or a chain of field selectors
// on one: an addressable expression without side effects.
func pureChain(e ast.Expr) bool {
	switch x := e.(type) {
	case *ast.Ident:
		return x.Name != "_"
	case *ast.SelectorExpr:
		return pureChain(x.X)
	case *ast.ParenExpr:
		return pureChain(x.X)
	}
	return false
}

type site struct {
	kind string   // "auto", "auto.lock", "auto.rlock"
	recv ast.Expr // for lock kinds, a pure chain; else nil
}

// syncCall classifies a call expression.
func syncCall(c *ast.CallExpr) (s site, ok bool) {
	sel, isSel := c.Fun.(*ast.SelectorExpr)
	if !isSel {
		return s, false
	}
	name := sel.Sel.Name
	if id, isID := sel.X.(*ast.Ident); isID && id.Name == "atomic" {
		return site{kind: "auto"}, true
	}
	switch name {
	case "Lock", "TryLock":
		if pureChain(sel.X) {
			return site{kind: "auto.lock", recv: sel.X}, true
		}
		return site{kind: "auto"}, true
	case "RLock", "TryRLock":
		if pureChain(sel.X) {
			return site{kind: "auto.rlock", recv: sel.X}, true
		}
		return site{kind: "auto"}, true
	case "Load", "Store", "Swap", "CompareAndSwap", "Wait", "Signal", "Broadcast":
		return site{kind: "auto"}, true
	case "Add", "Do":
		if _, chain := sel.X.(*ast.SelectorExpr); chain && pureChain(sel.X) {
			return site{kind: "auto"}, true
		}
	case "Get", "Put":
		if pureChain(sel.X) && strings.Contains(strings.ToLower(exprString(token.NewFileSet(), sel.X)), "pool") {
			return site{kind: "auto"}, true
		}
	}
	return s, false
}

// shallowSites collects the sync calls of a statement without descending
// into nested blocks or function literals (those are visited on their own).
func shallowSites(st ast.Stmt) (out []site) {
	ast.Inspect(st, func(n ast.Node) bool {
		switch x := n.(type) {
		case *ast.BlockStmt, *ast.FuncLit, *ast.DeferStmt, *ast.GoStmt, *ast.CaseClause, *ast.CommClause:
			return false
		case *ast.CallExpr:
			if s, ok := syncCall(x); ok {
				out = append(out, s)
			}
		}
		return true
	})
	return out
}

func isHookCall(e ast.Expr) bool {
	c, ok := e.(*ast.CallExpr)
	if !ok {
		return false
	}
	sel, ok := c.Fun.(*ast.SelectorExpr)
	if !ok {
		return false
	}
	id, ok := sel.X.(*ast.Ident)
	return ok && id.Name == "verifhook"
}

func instrument(path string) (int, error) {
	fset := token.NewFileSet()
	file, err := parser.ParseFile(fset, path, nil, parser.ParseComments)
	if err != nil {
		return 0, err
	}
	inserted := 0
	for _, d := range file.Decls {
		fd, ok := d.(*ast.FuncDecl)
		if !ok || fd.Body == nil {
			continue
		}
		var visit func(list []ast.Stmt, inherited map[string]bool) []ast.Stmt
		var walk func(n ast.Node, ctx map[string]bool)
		hookArgs := func(st ast.Stmt) (args []string, ok bool) {
			var c ast.Expr
			switch x := st.(type) {
			case *ast.ExprStmt:
				c = x.X
			case *ast.DeferStmt:
				c = x.Call
			}
			if c == nil || !isHookCall(c) {
				return nil, false
			}
			for _, a := range c.(*ast.CallExpr).Args {
				args = append(args, exprString(fset, a))
			}
			return args, true
		}
		visit = func(list []ast.Stmt, inherited map[string]bool) []ast.Stmt {
			var out []ast.Stmt
			for i, st := range list {
				// receivers handed to the hand-placed hooks that directly
				// precede this statement (or, for the first statement of an
				// immediately invoked closure, the closure call itself)
				ctx := map[string]bool{}
				j := i - 1
				for ; j >= 0; j-- {
					args, ok := hookArgs(list[j])
					if !ok {
						break
					}
					for _, a := range args {
						ctx[a] = true
					}
				}
				if j < 0 {
					for a := range inherited {
						ctx[a] = true
					}
				}
				skip := false
				switch st.(type) {
				case *ast.DeferStmt, *ast.GoStmt:
					skip = true
				}
				if _, isHook := hookArgs(st); isHook {
					skip = true
				}
				if !skip {
					var pick *site
					for _, s := range shallowSites(st) {
						s := s
						if s.recv != nil && ctx[exprString(fset, s.recv)] {
							continue
						}
						if pick == nil || (pick.recv == nil && s.recv != nil) {
							pick = &s
						}
					}
					if pick != nil {
						var arg ast.Expr = ast.NewIdent("nil")
						if pick.recv != nil {
							arg = &ast.UnaryExpr{Op: token.AND, X: pick.recv}
						}
						out = append(out, &ast.ExprStmt{X: &ast.CallExpr{
							Fun:  &ast.SelectorExpr{X: ast.NewIdent("verifhook"), Sel: ast.NewIdent("Y")},
							Args: []ast.Expr{&ast.BasicLit{Kind: token.STRING, Value: fmt.Sprintf("%q", pick.kind)}, arg},
						}})
						inserted++
					}
				}
				walk(st, ctx)
				out = append(out, st)
			}
			return out
		}
		walk = func(n ast.Node, ctx map[string]bool) {
			// an immediately invoked closure inherits the hook context of
			// its statement: `hook(mu); func() { mu.Lock(); ... }()`
			var iife *ast.BlockStmt
			if es, ok := n.(*ast.ExprStmt); ok {
				if c, ok := es.X.(*ast.CallExpr); ok {
					if fl, ok := c.Fun.(*ast.FuncLit); ok {
						iife = fl.Body
					}
				}
			}
			ast.Inspect(n, func(m ast.Node) bool {
				switch x := m.(type) {
				case *ast.ForStmt:
					// a retry loop whose condition (or post statement)
					// synchronises, `for !flag.CompareAndSwap(..) { .. }`:
					// the point in front of the loop is passed once, so
					// every iteration gets one of its own
					spins := false
					if x.Cond != nil && len(shallowSites(&ast.ExprStmt{X: x.Cond})) > 0 {
						spins = true
					}
					if x.Post != nil && len(shallowSites(x.Post)) > 0 {
						spins = true
					}
					if spins && x.Body != nil {
						x.Body.List = append([]ast.Stmt{&ast.ExprStmt{X: &ast.CallExpr{
							Fun:  &ast.SelectorExpr{X: ast.NewIdent("verifhook"), Sel: ast.NewIdent("Y")},
							Args: []ast.Expr{&ast.BasicLit{Kind: token.STRING, Value: `"auto"`}, ast.NewIdent("nil")},
						}}}, x.Body.List...)
						inserted++
					}
					return true
				case *ast.BlockStmt:
					if x == iife {
						x.List = visit(x.List, ctx)
					} else {
						x.List = visit(x.List, nil)
					}
					return false
				case *ast.CaseClause:
					x.Body = visit(x.Body, nil)
					return false
				case *ast.CommClause:
					x.Body = visit(x.Body, nil)
					return false
				}
				return true
			})
		}
		fd.Body.List = visit(fd.Body.List, nil)
	}
	if inserted == 0 {
		return 0, nil
	}
	// import
	has := false
	for _, im := range file.Imports {
		if strings.Trim(im.Path.Value, `"`) == hookPkg {
			has = true
		}
	}
	var buf bytes.Buffer
	if err := printer.Fprint(&buf, fset, file); err != nil {
		return 0, err
	}
	src := buf.String()
	if !has {
		// add a separate import declaration right after the package clause
		i := strings.Index(src, "\npackage ")
		if strings.HasPrefix(src, "package ") {
			i = -1
		}
		j := strings.Index(src[i+1:], "\n") + i + 1
		src = src[:j+1] + "\nimport \"" + hookPkg + "\"\n" + src[j+1:]
	}
	out, err := format.Source([]byte(src))
	if err != nil {
		return 0, fmt.Errorf("formatting instrumented source: %w", err)
	}
	return inserted, os.WriteFile(path, out, 0o644)
}
