package main

import (
	"fmt"

	"github.com/AdguardTeam/urlfilter"
	"github.com/AdguardTeam/urlfilter/filterlist"
)

func main() {
	l := &filterlist.StringRuleList{ID: 1, RulesText: "||example.org^$dnsrewrite=1.2.3.4\n@@||example.org^$dnsrewrite=1.2.3.4\n"}
	s, _ := filterlist.NewRuleStorage([]filterlist.RuleList{l})
	e := urlfilter.NewDNSEngine(s)
	res, ok := e.MatchRequest(&urlfilter.DNSRequest{Hostname: "example.org"})
	fmt.Println(ok, res.NetworkRules)
	fmt.Println(res.DNSRewrites())
	fmt.Println(res.NetworkRules)
}
