// Command simworker executes simulated runs of one property.  The same source
// is built twice: plain (-tags verif) and with the race detector
// (-tags verif -race).
package main

import (
	"encoding/binary"
	"encoding/json"
	"flag"
	"fmt"
	"io"
	"log/slog"
	"os"
	"os/exec"
	"regexp"
	"runtime"
	"runtime/pprof"
	"sort"
	"strings"
	"time"

	"verifsim/core"
	"verifsim/props"
)

// exit codes of the worker: 0 = batch finished (a violation, if any, is in
// the JSON), 3 = harness trouble (watchdog, bad arguments, I/O).
const exitTrouble = 3

// detEnum is how many executions of a fault enumeration are folded into the
// per-index determinism record.
const detEnum = 20

// Replay is the replay file: a run is a pure function of (script, params,
// code), so this is all that is needed to reproduce it.
type Replay struct {
	Property string         `json:"property"`
	Gate     string         `json:"gate"`
	Lock     string         `json:"lock"`
	Race     bool           `json:"race_build"`
	Thorough bool           `json:"thorough"`
	Procs    int            `json:"gomaxprocs"`
	Seed     uint64         `json:"batch_seed"`
	Run      uint64         `json:"run_index"`
	Script   []int          `json:"script"`
	Params   map[string]int `json:"params,omitempty"`
	Class    string         `json:"violation_class"`
	Detail   string         `json:"violation_detail"`
	Choices  []core.Choice  `json:"choices,omitempty"`
	Sample   map[string]any `json:"rendered_run,omitempty"`
	RunHash  string         `json:"run_hash,omitempty"`
	Shrunk   map[string]any `json:"minimisation,omitempty"`
	Go       string         `json:"go_version"`
	// Harness identifies the sources of the harness that wrote the file: a
	// script is a sequence of answers to the generators\' draws and means
	// something else once the generators change.
	Harness string `json:"harness,omitempty"`
	Flaky   bool   `json:"reproduces_in_some_executions_only,omitempty"`
}

// Stats is what a batch worker prints.
type Stats struct {
	Property   string           `json:"property"`
	Runs       int              `json:"runs"`
	Invalid    int              `json:"invalid"`
	Skipped    int              `json:"skipped"`
	Nontrivial int              `json:"nontrivial"`
	Steps      int64            `json:"steps"`
	Evals      int64            `json:"evals"`
	Probes     map[string]int   `json:"probes"`
	Faults     map[string]int   `json:"faults"`
	HLL        []byte           `json:"hll"`
	Samples    []map[string]any `json:"samples"`
	InvalidWhy []string         `json:"invalid_reasons"`
	Violation  *Replay          `json:"violation"`
	WallS      float64          `json:"wall_s"`
}

var (
	fProp      = flag.String("prop", "", "property id")
	fSeed      = flag.Uint64("seed", 1, "batch seed (VERIF_SEED)")
	fWorker    = flag.Int("worker", 0, "index of this worker")
	fWorkers   = flag.Int("workers", 1, "number of workers; this one runs indices worker, worker+workers, ...")
	fMaxRuns   = flag.Int("maxruns", 1<<30, "stop after this many runs of this worker")
	fFrom      = flag.Uint64("from", 0, "first run index of the batch")
	fDeadline  = flag.Int64("deadline", 0, "unix time after which no new run is started")
	fGate      = flag.String("gate", "chan", "hand-off gate: chan|pipe")
	fLock      = flag.String("lock", "probe", "lock mode: probe|track")
	fProcs     = flag.Int("procs", 1, "GOMAXPROCS")
	fThorough  = flag.Bool("thorough", false, "wider bounds")
	fRaceLog   = flag.String("racelog", "", "log_path prefix given to the race runtime (race build)")
	fHashes    = flag.String("hashes", "", "write (index, runhash, nontrivial) records here")
	fDir       = flag.String("dir", "", "scratch directory")
	fReplay    = flag.String("replay", "", "replay this file and print the outcome")
	fShrink    = flag.String("shrink", "", "minimise this replay file in place")
	fSub       = flag.Bool("subprocess", false, "with -shrink: one process per candidate (needed for race reports)")
	fBudget    = flag.Int("budget", 1500, "with -shrink: execution budget")
	fSamples   = flag.Int("samples", 2, "rendered sample runs to keep")
	fRefEvery  = flag.Int("refrecycle", 16, "C13: replace the reference process by a new one after this many runs (0 = never)")
	fHitCov    = flag.Int("hitcov", 0, "workload self-check: per form of rule line, how many generated lines ever appear in an answer (this many runs)")
	fRefSrv    = flag.Bool("refserver", false, "serve reference answers on stdin/stdout (started by a C13 worker)")
	fNoRef     = flag.Bool("noref", false, "compute references in-process")
	fRunList   = flag.String("runlist", "", "execute exactly these run indices, in this order, in this one process (replay of a process history)")
	fParams    = flag.String("params", "", "k=v,k=v extra parameters")
	fPlanCap   = flag.Int("plancap", 1500, "fault enumeration: beyond this many fault plans per base, sample")
	fEnumLimit = flag.Int("enumlimit", 0, "fault enumeration: execute only the first N plans per base (determinism re-runs)")
	fGrace     = flag.Int("grace", 5, "seconds past the deadline an ongoing enumeration may use")
)

func trouble(format string, a ...any) {
	fmt.Fprintf(os.Stderr, "simworker: "+format+"\n", a...)
	os.Exit(exitTrouble)
}

func main() {
	flag.Parse()
	runtime.GOMAXPROCS(*fProcs)
	// Tasks must never write to a file descriptor: under the race detector
	// syscall.Write releases into a global io clock that every later file
	// read acquires, which would order tasks through their log lines.
	slog.SetDefault(slog.New(slog.NewTextHandler(io.Discard, nil)))

	go watchdog()

	switch {
	case *fRefSrv:
		d, err := os.MkdirTemp(*fDir, "verifsim-ref-")
		if err != nil {
			trouble("%v", err)
		}
		props.ServeRef(os.Stdin, os.Stdout, d)
		os.RemoveAll(d)
		return
	case *fHitCov > 0:
		fmt.Print(props.HitCoverage(*fSeed, *fHitCov, *fDir))
	case *fReplay != "":
		doReplay()
	case *fShrink != "":
		doShrink()
	default:
		doBatch()
	}
}

func watchdog() {
	last := core.Heartbeat.Load()
	still := 0
	for {
		time.Sleep(5 * time.Second)
		now := core.Heartbeat.Load()
		if now == last && inRun.Load() {
			still++
			if still >= 12 {
				pprof.Lookup("goroutine").WriteTo(os.Stderr, 1)
				trouble("WATCHDOG: no scheduler step for 60s (a released task blocked for real)")
			}
		} else {
			still = 0
		}
		last = now
	}
}

func env(thorough bool, keep bool) *props.Env {
	e := &props.Env{Thorough: thorough, KeepTrace: keep, Race: raceEnabled, Params: map[string]int{}}
	switch *fGate {
	case "chan":
		e.NewGate = func() core.Gate { return &core.ChanGate{} }
	case "pipe":
		e.NewGate = func() core.Gate { return &core.PipeGate{} }
	default:
		trouble("unknown gate %q", *fGate)
	}
	switch *fLock {
	case "probe":
		e.LockMode = core.LockProbe
	case "track":
		e.LockMode = core.LockTrack
	default:
		trouble("unknown lock mode %q", *fLock)
	}
	dir := *fDir
	if dir == "" {
		dir = os.TempDir()
	}
	d, err := os.MkdirTemp(dir, "verifsim-")
	if err != nil {
		trouble("scratch dir: %v", err)
	}
	e.Dir = d
	if *fProp == "C13" && !*fNoRef {
		if refClient == nil {
			self, _ := os.Executable()
			refClient = props.NewRefClient(self, dir)
			// by position in this process's sequence of runs, so that a
			// replay of the sequence (-runlist) meets the same reference
			// processes of the same age
			refClient.RecycleEvery = *fRefEvery
		}
		e.Ref = refClient.Ask
	}
	if *fParams != "" {
		for _, kv := range strings.Split(*fParams, ",") {
			var k string
			var v int
			if _, err := fmt.Sscanf(strings.Replace(kv, "=", " ", 1), "%s %d", &k, &v); err != nil {
				trouble("bad -params %q", kv)
			}
			e.Params[k] = v
		}
	}
	return e
}

var raceHdr = regexp.MustCompile(`^(Write|Read|Previous write|Previous read|Atomic write|Atomic read|Previous atomic write|Previous atomic read) at 0x[0-9a-f]+ by `)

// raceSignature extracts, for each of the two conflicting accesses of the
// first report, the innermost frame that is not in the Go runtime or the
// standard library: "func@file.go:line".  The sorted pair is the violation
// class that shrinking must preserve.
func raceSignature(report string) string {
	lines := strings.Split(report, "\n")
	var sig []string
	for i := 0; i < len(lines) && len(sig) < 2; i++ {
		if !raceHdr.MatchString(lines[i]) {
			continue
		}
		pickFn, pickLoc := "", ""
		for j := i + 1; j+1 < len(lines) && strings.HasPrefix(lines[j], "  ") && !strings.HasPrefix(lines[j], "   "); j += 2 {
			fn := strings.TrimSpace(lines[j])
			if k := strings.LastIndex(fn, "("); k > 0 {
				fn = fn[:k]
			}
			loc := strings.Fields(strings.TrimSpace(lines[j+1]))
			file := ""
			if len(loc) > 0 {
				file = loc[0]
			}
			if pickFn == "" {
				pickFn, pickLoc = fn, file
			}
			if strings.HasPrefix(file, "<autogenerated>") || strings.HasPrefix(fn, "runtime.") || strings.Contains(file, "/src/runtime/") || strings.Contains(file, "/src/sync/") || strings.Contains(file, "/src/internal/") || strings.Contains(file, "/go-1.") || strings.Contains(file, "/veriftools/go") {
				continue
			}
			pickFn, pickLoc = fn, file
			break
		}
		if k := strings.LastIndex(pickLoc, "/"); k >= 0 {
			pickLoc = pickLoc[k+1:]
		}
		if k := strings.LastIndex(pickFn, "/"); k >= 0 {
			pickFn = pickFn[k+1:]
		}
		sig = append(sig, pickFn+"@"+pickLoc)
	}
	sort.Strings(sig)
	if len(sig) == 0 {
		return "race:unparsed"
	}
	return "race:" + strings.Join(sig, "|")
}

// raceCheck looks for a report of the race runtime written since the process
// started.  With halt_on_error=0 the runtime appends the report to
// <log_path>.<pid> at the moment of detection and the program continues, so
// the run during which the file appears is the racing run, and its full
// choice log is still in memory.
func raceCheck() (class, report string) {
	if *fRaceLog == "" {
		return "", ""
	}
	b, err := os.ReadFile(fmt.Sprintf("%s.%d", *fRaceLog, os.Getpid()))
	if err != nil || len(b) == 0 {
		return "", ""
	}
	report = string(b)
	if !bothSidesInLibrary(report) {
		// A race in which one of the two accesses does not come from the
		// library under test is a defect of this harness (its own shared
		// state, or harness code touching library memory): harness trouble,
		// never a violation of the property.
		fmt.Fprintf(os.Stderr, "HARNESS RACE (not a property violation):\n%s\n", report)
		os.Exit(exitTrouble)
	}
	return raceSignature(report), report
}

const libraryPath = "github.com/AdguardTeam/urlfilter"

// bothSidesInLibrary reports whether each of the two access stacks of the
// first report has at least one frame in the library under test.
func bothSidesInLibrary(report string) bool {
	lines := strings.Split(report, "\n")
	sides, withLib := 0, 0
	for i := 0; i < len(lines) && sides < 2; i++ {
		if !raceHdr.MatchString(lines[i]) {
			continue
		}
		sides++
		for j := i + 1; j < len(lines) && strings.TrimSpace(lines[j]) != ""; j++ {
			if strings.Contains(lines[j], libraryPath+"/") || strings.Contains(lines[j], libraryPath+".") {
				withLib++
				break
			}
		}
	}
	return sides == 2 && withLib == 2
}

// execute performs one run.  It is the only place a run is executed, for
// batches, replays and shrinking alike.
func execute(run props.RunFunc, ch *core.Chooser, e *props.Env) (out *props.Outcome) {
	// the watchdog measures progress within ONE run: every run start counts
	core.Heartbeat.Add(1)
	inRun.Store(true)
	defer inRun.Store(false)
	out = run(ch, e)
	if out.Violation == nil && !out.Invalid {
		if class, report := raceCheck(); class != "" {
			out.Violation = &props.Violation{Class: class, Detail: report}
		}
	}
	return out
}

func doBatch() {
	run, ok := props.Registry[*fProp]
	if !ok {
		trouble("unknown property %q", *fProp)
	}
	e := env(*fThorough, false)
	defer os.RemoveAll(e.Dir)
	st := &Stats{Property: *fProp, Probes: map[string]int{}, Faults: map[string]int{}}
	hll := core.NewHLL()
	var hashOut *os.File
	if *fHashes != "" {
		var err error
		if hashOut, err = os.Create(*fHashes); err != nil {
			trouble("%v", err)
		}
		defer hashOut.Close()
		// executions of an enumeration go to a second file: they count for
		// "distinct" but are not part of the per-index determinism record
		if distinctOut, err = os.Create(*fHashes + ".enum"); err != nil {
			trouble("%v", err)
		}
		defer distinctOut.Close()
	}
	start := time.Now()
	var runList []uint64
	if *fRunList != "" {
		for _, f := range strings.Split(*fRunList, ",") {
			var v uint64
			if _, err := fmt.Sscanf(f, "%d", &v); err != nil {
				trouble("bad -runlist element %q", f)
			}
			runList = append(runList, v)
		}
		*fMaxRuns = len(runList)
	}
	for k := 0; k < *fMaxRuns; k++ {
		if *fDeadline > 0 && time.Now().Unix() >= *fDeadline {
			break
		}
		idx := *fFrom + uint64(*fWorker) + uint64(k)*uint64(*fWorkers)
		if runList != nil {
			idx = runList[k]
		}
		seed := core.RunSeed(*fSeed, idx)
		ch := core.NewChooser(seed)
		ch.KeepLabels = false
		e.KeepTrace = len(st.Samples) < *fSamples
		e.Params = map[string]int{}
		e.Memo = map[string]any{}
		t0 := time.Now()
		out := execute(run, ch, e)
		if d := int(time.Since(t0).Milliseconds()); d > st.Probes["max_single_run_ms"] {
			st.Probes["max_single_run_ms"] = d
			st.Probes["max_single_run_index"] = int(idx)
		}
		st.Runs++
		// the per-index determinism record covers the base execution and
		// the first detEnum executions of its fault enumeration
		recHash, recNT := out.RunHash, out.Nontrivial
		stop := account(st, hll, e, idx, out, ch.Values(), nil)
		if stop {
			break
		}
		// fault enumeration: re-execute the same choice log once per fault
		// plan; past the end of the log the PRNG stream of the base run
		// continues (the Chooser advances it on scripted draws too)
		complete := true
		if len(out.FaultPlans) > 0 {
			plans := out.FaultPlans
			st.Probes["bases"]++
			// a seeded order, the same whatever the cap, so that the first
			// detEnum executions are the same in every phase
			pr := core.NewXoshiro(seed ^ 0xfa017)
			for i := len(plans) - 1; i > 0; i-- {
				j := pr.Intn(i + 1)
				plans[i], plans[j] = plans[j], plans[i]
			}
			if capN := *fPlanCap; len(plans) > capN {
				// beyond the bound: a seeded sample of the fault plans
				st.Probes["bases_fault_plans_sampled"]++
				plans = plans[:capN]
			} else {
				st.Probes["bases_fault_plans_enumerated_exhaustively"]++
			}
			base := ch.Values()
			for pi, fp := range plans {
				if *fEnumLimit > 0 && pi >= *fEnumLimit {
					break
				}
				if *fDeadline > 0 && time.Now().Unix() >= *fDeadline+int64(*fGrace) {
					st.Probes["enumerations_cut_by_deadline"]++
					complete = complete && pi >= detEnum
					break
				}
				sc := core.NewScripted(base, &seed)
				sc.KeepLabels = false
				e.Params = fp
				e.KeepTrace = len(st.Samples) < *fSamples
				o2 := execute(run, sc, e)
				if pi < detEnum {
					recHash = recHash*1099511628211 ^ o2.RunHash
				}
				if account(st, hll, e, idx, o2, sc.Values(), distinctOut) {
					stop = true
					break
				}
			}
			if stop {
				break
			}
		}
		if hashOut != nil && complete && !out.Skipped {
			var hbuf []byte
			hbuf = binary.LittleEndian.AppendUint64(hbuf, idx)
			hbuf = binary.LittleEndian.AppendUint64(hbuf, recHash)
			nt := byte(0)
			if recNT {
				nt = 1
			}
			hashOut.Write(append(hbuf, nt))
		}
		if leakedRuns >= 40 {
			// every abandoned run of the race build leaves its goroutines
			// and pipes behind; stop this worker before that adds up
			st.Probes["worker_stopped_early_after_40_abandoned_runs"]++
			break
		}
		if k%64 == 63 {
			runtime.GC()
		}
	}
	if n := core.ForeignHookCalls.Load(); n > 0 {
		st.Probes["hook_calls_from_goroutines_started_by_the_library"] = int(n)
	}
	if refClient != nil {
		st.Probes["reference_process_replaced_by_a_young_one"] += refClient.Recycled
		st.Probes["reference_process_died_and_was_restarted"] += refClient.Restarts
	}
	st.HLL = hll.Reg
	st.WallS = time.Since(start).Seconds()
	json.NewEncoder(os.Stdout).Encode(st)
}

// account folds one execution into the batch statistics; it returns true if
// the batch must stop (a violation was found).
func account(st *Stats, hll *core.HLL, e *props.Env, idx uint64, out *props.Outcome, values []int, hashOut *os.File) bool {
	if out.Skipped {
		st.Skipped++
		if out.Probes["tasks_left_parked_for_ever_race_build"] > 0 {
			leakedRuns++
		}
		for k, v := range out.Probes {
			if !strings.HasPrefix(k, "max_") {
				st.Probes[k] += v
			}
		}
		return false
	}
	st.Evals += int64(out.Evals)
	st.Steps += int64(out.Steps)
	if out.Invalid {
		st.Invalid++
		if len(st.InvalidWhy) < 3 {
			st.InvalidWhy = append(st.InvalidWhy, fmt.Sprintf("run %d: %s", idx, firstLines(out.InvalidReason, 6)))
		}
		return false
	}
	if out.Nontrivial {
		st.Nontrivial++
	}
	for k, v := range out.Probes {
		if strings.HasPrefix(k, "max_") {
			if v > st.Probes[k] {
				st.Probes[k] = v
			}
		} else {
			st.Probes[k] += v
		}
	}
	for k, v := range out.Faults {
		st.Faults[k] += v
	}
	for _, s := range out.States {
		hll.Add(s)
	}
	if e.KeepTrace && out.Sample != nil && out.Nontrivial {
		out.Sample["run_index"] = idx
		st.Samples = append(st.Samples, out.Sample)
	}
	if hashOut != nil {
		// record for the exact distinct count (the determinism record of the
		// index is written by the caller)
		var hbuf []byte
		hbuf = binary.LittleEndian.AppendUint64(hbuf, idx)
		hbuf = binary.LittleEndian.AppendUint64(hbuf, out.RunHash)
		nt := byte(0)
		if out.Nontrivial {
			nt = 1
		}
		hashOut.Write(append(hbuf, nt))
	}
	if out.Violation != nil {
		params := map[string]int{}
		for k, v := range e.Params {
			params[k] = v
		}
		st.Violation = &Replay{Property: *fProp, Gate: *fGate, Lock: *fLock, Race: raceEnabled, Thorough: *fThorough, Procs: *fProcs,
			Seed: *fSeed, Run: idx, Script: values, Params: params, Class: out.Violation.Class, Detail: out.Violation.Detail, Go: runtime.Version(), Harness: os.Getenv("VERIF_HARNESS")}
		return true
	}
	return false
}

func firstLines(s string, n int) string {
	ls := strings.Split(s, "\n")
	if len(ls) > n {
		ls = ls[:n]
	}
	return strings.Join(ls, "\n")
}

func loadReplay(path string) *Replay {
	b, err := os.ReadFile(path)
	if err != nil {
		trouble("%v", err)
	}
	rp := &Replay{}
	if err := json.Unmarshal(b, rp); err != nil {
		trouble("replay file %s: %v", path, err)
	}
	return rp
}

// replayOutcome is what -replay prints.
type replayOutcome struct {
	Class   string         `json:"class"`
	Detail  string         `json:"detail"`
	Invalid bool           `json:"invalid"`
	RunHash string         `json:"run_hash"`
	Values  []int          `json:"values"`
	Spans   []core.Span    `json:"spans"`
	Choices []core.Choice  `json:"choices,omitempty"`
	Sample  map[string]any `json:"sample,omitempty"`
}

func applyMode(rp *Replay) {
	*fProp, *fGate, *fLock, *fThorough = rp.Property, rp.Gate, rp.Lock, rp.Thorough
	if rp.Procs > 0 {
		*fProcs = rp.Procs
		runtime.GOMAXPROCS(rp.Procs)
	}
}

func runScript(rp *Replay, script []int, keep bool) *replayOutcome {
	run, ok := props.Registry[rp.Property]
	if !ok {
		trouble("unknown property %q", rp.Property)
	}
	e := env(rp.Thorough, keep)
	defer os.RemoveAll(e.Dir)
	for k, v := range rp.Params {
		e.Params[k] = v
	}
	ch := core.NewScripted(script, nil)
	out := execute(run, ch, e)
	ro := &replayOutcome{Invalid: out.Invalid, RunHash: fmt.Sprintf("%016x", out.RunHash), Values: ch.Values(), Spans: ch.Spans}
	if out.Violation != nil {
		ro.Class, ro.Detail = out.Violation.Class, out.Violation.Detail
	}
	if keep {
		ro.Choices = ch.Log
		ro.Sample = out.Sample
	}
	return ro
}

func doReplay() {
	rp := loadReplay(*fReplay)
	applyMode(rp)
	ro := runScript(rp, rp.Script, true)
	json.NewEncoder(os.Stdout).Encode(ro)
}

func doShrink() {
	rp := loadReplay(*fShrink)
	applyMode(rp)
	self, _ := os.Executable()
	var exec1 core.ExecFn
	if *fSub {
		n := 0
		exec1 = func(script []int) (string, []int, []core.Span) {
			n++
			c := *rp
			c.Script = script
			c.Choices, c.Sample = nil, nil
			tmp := fmt.Sprintf("%s.cand", *fShrink)
			b, _ := json.Marshal(&c)
			if err := os.WriteFile(tmp, b, 0o600); err != nil {
				trouble("%v", err)
			}
			defer os.Remove(tmp)
			args := []string{"-replay", tmp, "-dir", *fDir}
			cmd := exec.Command(self, args...)
			if rp.Race {
				lp := fmt.Sprintf("%s.racelog.%d", *fShrink, n)
				cmd.Args = append(cmd.Args, "-racelog", lp)
				cmd.Env = append(os.Environ(), "GORACE=halt_on_error=0 log_path="+lp)
				defer func() {
					ms, _ := filepathGlob(lp + ".*")
					for _, m := range ms {
						os.Remove(m)
					}
				}()
			}
			outb, err := cmd.Output()
			ro := &replayOutcome{}
			if jerr := json.Unmarshal(outb, ro); jerr != nil {
				// a candidate that crashes the process is simply not accepted
				_ = err
				return "", nil, nil
			}
			return ro.Class, ro.Values, ro.Spans
		}
	} else {
		exec1 = func(script []int) (string, []int, []core.Span) {
			ro := runScript(rp, script, false)
			return ro.Class, ro.Values, ro.Spans
		}
	}
	before := len(rp.Script)
	best, execs := core.Shrink(rp.Script, rp.Class, exec1, *fBudget)
	rp.Script = best
	// the parameters that are not drawn (the fault plan) shrink too: drop
	// the second fault, move the fault instants towards the start; the
	// executor reads rp.Params, so candidates are tried in place
	paramTries := 0
	if len(rp.Params) > 0 {
		holds := func() bool {
			paramTries++
			c, _, _ := exec1(rp.Script)
			return core.SameClass(c, rp.Class)
		}
		if _, two := rp.Params["fault2_at"]; two {
			saved := map[string]int{}
			for _, k := range []string{"fault2_at", "fault2_kind", "fault2_target"} {
				saved[k] = rp.Params[k]
				delete(rp.Params, k)
			}
			if !holds() {
				for k, v := range saved {
					rp.Params[k] = v
				}
			}
		}
		for _, k := range []string{"fault_at", "fault2_at"} {
			for paramTries < 60 {
				v, ok := rp.Params[k]
				if !ok || v <= 0 {
					break
				}
				moved := false
				for _, cand := range []int{v / 2, v - 1} {
					if cand == v {
						continue
					}
					rp.Params[k] = cand
					if holds() {
						moved = true
						break
					}
					rp.Params[k] = v
				}
				if !moved {
					break
				}
			}
		}
		if paramTries > 0 && *fBudget-execs > 50 {
			// with the fault earlier, more of the plan may be removable
			b2, e2 := core.Shrink(rp.Script, rp.Class, exec1, (*fBudget-execs)/2)
			rp.Script, best = b2, b2
			execs += e2
		}
	}
	rp.Shrunk = map[string]any{"choices_before": before, "choices_after": len(best), "executions": execs + paramTries}
	b, _ := json.MarshalIndent(rp, "", " ")
	if err := os.WriteFile(*fShrink, b, 0o644); err != nil {
		trouble("%v", err)
	}
	fmt.Printf("{\"choices_before\":%d,\"choices_after\":%d,\"executions\":%d}\n", before, len(best), execs)
}
