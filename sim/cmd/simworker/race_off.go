//go:build !race

package main

const raceEnabled = false
