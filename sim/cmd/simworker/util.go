package main

import (
	"path/filepath"
	"sync/atomic"
)

var inRun atomic.Bool

func filepathGlob(p string) ([]string, error) { return filepath.Glob(p) }
