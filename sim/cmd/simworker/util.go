package main

import (
	"os"
	"path/filepath"
	"sync/atomic"
	"verifsim/props"
)

var inRun atomic.Bool

var distinctOut *os.File

func filepathGlob(p string) ([]string, error) { return filepath.Glob(p) }

var leakedRuns int

var refClient *props.RefClient
