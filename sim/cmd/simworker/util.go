package main

import (
	"os"
	"path/filepath"
	"sync/atomic"
)

var inRun atomic.Bool

var distinctOut *os.File

func filepathGlob(p string) ([]string, error) { return filepath.Glob(p) }

var leakedRuns int
