// Command simdriver runs one registered check: it spawns the worker
// processes of every phase, merges what they report, confirms and minimises
// a violation, proves determinism on a sample, and writes the evidence file.
//
// Exit codes: 0 = the property held on everything explored (KNOWN-FINDING
// lines possible); 1 = "VIOLATION property=<id> replay=<path>" for a
// reproduced, minimised violation that is not a listed known finding;
// 2 = harness trouble (worker crash, watchdog, replay that does not
// reproduce, determinism divergence) -- never a VIOLATION line.
package main

import (
	"bytes"
	"encoding/binary"
	"encoding/json"
	"flag"
	"fmt"
	"os"
	"os/exec"
	"path/filepath"
	"regexp"
	"sort"
	"strconv"
	"strings"
	"sync"
	"time"

	"verifsim/core"
)

type phase struct {
	Name    string
	Race    bool
	Gate    string
	Lock    string
	Procs   int
	Secs    int
	Workers int
}

// what each check runs.  Seconds are wall-clock budgets per phase; the set of
// run indices is the same in every phase of a check, so a race-build phase
// re-executes a prefix of what the plain phase executed (and their run hashes
// are compared).
var plans = map[string]map[string][]phase{
	"C14": {
		"quick":    {{"N", false, "chan", "probe", 1, 14, 16}, {"R", true, "pipe", "track", 4, 30, 16}},
		"thorough": {{"N", false, "chan", "probe", 1, 900, 16}, {"R", true, "pipe", "track", 4, 2700, 16}},
	},
	"C13": {
		"quick":    {{"N", false, "chan", "probe", 1, 30, 16}},
		"thorough": {{"N", false, "chan", "probe", 1, 2400, 16}},
	},
	"C11": {
		"quick":    {{"N", false, "chan", "probe", 1, 30, 16}},
		"thorough": {{"N", false, "chan", "probe", 1, 2400, 16}},
	},
	"C19": {
		"quick":    {{"N", false, "chan", "probe", 1, 30, 16}, {"R", true, "pipe", "track", 4, 12, 16}},
		"thorough": {{"N", false, "chan", "probe", 1, 2700, 16}, {"R", true, "pipe", "track", 4, 900, 16}},
	},
}

var levels = map[string]string{"C11": "exploration", "C13": "exploration", "C14": "exploration", "C19": "fault_enumeration"}

type replay struct {
	Property string         `json:"property"`
	Gate     string         `json:"gate"`
	Lock     string         `json:"lock"`
	Race     bool           `json:"race_build"`
	Thorough bool           `json:"thorough"`
	Procs    int            `json:"gomaxprocs"`
	Seed     uint64         `json:"batch_seed"`
	Run      uint64         `json:"run_index"`
	Script   []int          `json:"script"`
	Params   map[string]int `json:"params,omitempty"`
	Class    string         `json:"violation_class"`
	Detail   string         `json:"violation_detail"`
	Choices  []core.Choice  `json:"choices,omitempty"`
	Sample   map[string]any `json:"rendered_run,omitempty"`
	RunHash  string         `json:"run_hash,omitempty"`
	Shrunk   map[string]any `json:"minimisation,omitempty"`
	Go       string         `json:"go_version"`
	// Harness identifies the sources of the harness that wrote the file: a
	// script is a sequence of answers to the generators\' draws and means
	// something else once the generators change.
	Harness string `json:"harness,omitempty"`
	// Flaky: the violation reproduces in some executions of the script
	// only, because the tree under test is nondeterministic by itself.
	Flaky bool `json:"reproduces_in_some_executions_only,omitempty"`
	// RunList: the violation depends on what the PROCESS executed before
	// (state the library keeps outside its engines): the replay is this
	// list of run indices executed in order in one fresh process.
	RunList []uint64 `json:"run_list,omitempty"`
}

type stats struct {
	Property   string           `json:"property"`
	Runs       int              `json:"runs"`
	Invalid    int              `json:"invalid"`
	Skipped    int              `json:"skipped"`
	Nontrivial int              `json:"nontrivial"`
	Steps      int64            `json:"steps"`
	Evals      int64            `json:"evals"`
	Probes     map[string]int   `json:"probes"`
	Faults     map[string]int   `json:"faults"`
	HLL        []byte           `json:"hll"`
	Samples    []map[string]any `json:"samples"`
	InvalidWhy []string         `json:"invalid_reasons"`
	Violation  *replay          `json:"violation"`
	WallS      float64          `json:"wall_s"`
}

type replayOutcome struct {
	Class   string         `json:"class"`
	Detail  string         `json:"detail"`
	Invalid bool           `json:"invalid"`
	RunHash string         `json:"run_hash"`
	Values  []int          `json:"values"`
	Choices []core.Choice  `json:"choices,omitempty"`
	Sample  map[string]any `json:"sample,omitempty"`
}

type knownFinding struct {
	Property string `json:"property"`
	Status   string `json:"status"` // "known" or "fixed"
	Class    string `json:"class_regexp"`
	Detail   string `json:"detail_regexp"`
	What     string `json:"what"`
	Commit   string `json:"commit,omitempty"`
}

var (
	fProp  = flag.String("prop", "", "property id")
	fTier  = flag.String("tier", "quick", "quick|thorough")
	fSeed  = flag.Uint64("seed", 20260926, "VERIF_SEED")
	fVerif = flag.String("verif", "/verif", "verif root")
	fBin   = flag.String("bin", "", "directory with simworker and simworker-race")
	fOut   = flag.String("out", "", "where evidence/, replays/ and .tmp/ live (default: the verif root)")
	fAuto  = flag.Int("autopoints", -1, "scheduling points inserted by astyield into the scratch copy (-1: not instrumented)")
	fScale = flag.Float64("scale", 1, "scale every phase budget (testing)")
)

// notReproducedMsg is the message of the first candidate violation that could
// not be confirmed.
var notReproducedMsg string

func trouble(format string, a ...any) {
	fmt.Printf("HARNESS-TROUBLE: "+format+"\n", a...)
	os.Exit(2)
}

func main() {
	flag.Parse()
	if *fOut == "" {
		*fOut = *fVerif
	}
	start := time.Now()
	phases, ok := plans[*fProp][*fTier]
	if !ok {
		trouble("no plan for %s/%s", *fProp, *fTier)
	}
	scratch, err := os.MkdirTemp(filepath.Join(*fOut, ".tmp"), "drv-")
	if err != nil {
		trouble("%v", err)
	}
	defer os.RemoveAll(scratch)
	fmt.Printf("VERIF_SEED=%d property=%s tier=%s\n", *fSeed, *fProp, *fTier)

	ev := &evidence{prop: *fProp, tier: *fTier, seed: *fSeed, hll: core.NewHLL(), probes: map[string]int{}, faults: map[string]int{},
		distinct: map[uint64]bool{}, phaseInfo: []map[string]any{}, scratch: scratch}
	hashesByPhase := []map[uint64]uint64{}
	var viol *replay
	var violPhase phase
	var candidates []*replay // every worker stops at its own first violation

	for _, ph := range phases {
		secs := int(float64(ph.Secs) * *fScale)
		if secs < 1 {
			secs = 1
		}
		sts, hashes := runPhase(ph, secs, scratch)
		hashesByPhase = append(hashesByPhase, hashes)
		info := map[string]any{"phase": ph.Name, "race_detector": ph.Race, "gate": ph.Gate, "lock_mode": ph.Lock, "gomaxprocs": ph.Procs, "workers": ph.Workers, "budget_s": secs}
		runs := 0
		for _, st := range sts {
			runs += st.Runs
			ev.merge(st)
			if st.Violation != nil && (viol == nil || st.Violation.Run < viol.Run) {
				viol, violPhase = st.Violation, ph
			}
			if st.Violation != nil {
				candidates = append(candidates, st.Violation)
			}
		}
		info["runs"] = runs
		ev.phaseInfo = append(ev.phaseInfo, info)
		fmt.Printf("phase %s: %d runs in %ds\n", ph.Name, runs, secs)
		if viol != nil {
			break
		}
		// determinism: re-execute a sample in a fresh process and compare
		ev.detDone, ev.detAgreed = detCheck(ph, scratch, hashes, ev.detDone, ev.detAgreed)
	}
	// cross-phase determinism: the same run index must hash the same in the
	// plain/channel/probe phase and in the race/pipe/track phase
	if viol == nil && len(hashesByPhase) == 2 {
		for idx, h := range hashesByPhase[1] {
			if h0, ok := hashesByPhase[0][idx]; ok {
				ev.crossDone++
				if h0 == h {
					ev.crossAgreed++
				} else {
					if ev.crossFirstBad == "" {
						ev.crossFirstBad = fmt.Sprintf("run %d: %016x vs %016x", idx, h0, h)
					}
					if len(ev.crossBad) < 4 {
						ev.crossBad = append(ev.crossBad, idx)
					}
				}
			}
		}
	}

	left := 0
	for k, v := range ev.probes {
		if strings.HasPrefix(k, "anomaly_before_any_fault_left_to") {
			left += v
		}
	}
	if left > 0 {
		fmt.Printf("note: %d runs showed a wrong answer, a changed earlier result, a panic or no progress while every list was still readable; %s speaks about queries after a fault, so those runs were left to the checks of C11/C13/C14\n", left, ev.prop)
	}
	if viol == nil && ev.runs == 0 && left == 0 {
		trouble("no run was executed within the budget: the check decided nothing")
	}
	exit := 0
	if viol != nil {
		// the earliest candidate first; if it cannot be confirmed in fresh
		// processes (a tree that is nondeterministic by itself makes
		// confirmation a matter of luck), up to three more candidates of
		// other workers are tried before the batch is declared undecidable
		sort.Slice(candidates, func(a, b int) bool { return candidates[a].Run < candidates[b].Run })
		exit = -1
		for i, c := range candidates {
			if i >= 4 {
				break
			}
			if exit = handleViolation(c, violPhase, scratch, ev); exit >= 0 {
				break
			}
		}
		if exit < 0 {
			trouble("%s", notReproducedMsg)
		}
	}
	ev.wall = time.Since(start).Seconds()
	ev.write(filepath.Join(*fOut, "evidence", *fProp+".json"))
	if exit == 0 && ev.probes["hook_calls_from_goroutines_started_by_the_library"] > 0 && (ev.detDone != ev.detAgreed || ev.crossDone != ev.crossAgreed) {
		// the code under test runs goroutines of its own inside queries;
		// their interleaving is outside the simulator's control, so two
		// executions of one seed may legitimately differ
		fmt.Printf("note: the library starts goroutines of its own inside queries (%d hook calls from them); %d of %d double-runs and %d of %d cross-mode runs differed - not repeatable by construction, not counted as harness trouble\n",
			ev.probes["hook_calls_from_goroutines_started_by_the_library"], ev.detDone-ev.detAgreed, ev.detDone, ev.crossDone-ev.crossAgreed, ev.crossDone)
		ev.detDone, ev.detAgreed, ev.crossDone, ev.crossAgreed = 0, 0, 0, 0
	}
	if exit == 0 {
		if ev.detDone != ev.detAgreed {
			trouble("determinism self-check: %d of %d double-runs disagreed", ev.detDone-ev.detAgreed, ev.detDone)
		}
		if ev.crossDone != ev.crossAgreed && len(phases) == 2 {
			// The same run index may behave differently in two worker
			// processes for a reason that is not the harness: state the
			// library keeps outside its engines (a process-wide cache) is in a
			// different condition in each, because the two phases have not
			// executed exactly the same runs before it.  Decide by executing
			// each differing run ALONE in a fresh process of either mode: if
			// those agree, the run is a function of its seed and the
			// difference came from process history.
			alone, selfConsistent := true, true
			for _, idx := range ev.crossBad {
				h0, ok0 := singleRunHash(phases[0], scratch, idx)
				h1, ok1 := singleRunHash(phases[1], scratch, idx)
				if !ok0 || !ok1 || h0 != h1 {
					alone = false
					// each mode against itself
					g0, k0 := singleRunHash(phases[0], scratch, idx)
					g1, k1 := singleRunHash(phases[1], scratch, idx)
					if !ok0 || !ok1 || !k0 || !k1 || g0 != h0 || g1 != h1 {
						selfConsistent = false
					}
				}
			}
			if !alone && selfConsistent && len(ev.crossBad) > 0 && autoPoints() > 1 {
				// The tree under test takes locks at places the hand-placed
				// hooks do not describe (automatic points were inserted in
				// front of them).  The plain build probes real locks, the
				// race build tracks ownership from hook events: with hooks
				// and lock operations apart, the two may enable different
				// tasks at some step and walk different schedules from the
				// same choices.  Each mode is repeatable by itself, which is
				// what replay rests on.
				fmt.Printf("note: %d of %d runs took different schedules in the plain and the race phase, each repeatable in its own mode (executed twice alone in fresh processes): the tree takes locks away from the hand-placed hooks (%d automatic points), so probing and tracking enable different tasks; not counted as harness trouble\n", ev.crossDone-ev.crossAgreed, ev.crossDone, autoPoints())
				ev.probes["runs_with_mode_dependent_schedules"] = ev.crossDone - ev.crossAgreed
				ev.crossDone, ev.crossAgreed = 0, 0
			}
			if alone && len(ev.crossBad) > 0 {
				fmt.Printf("note: %d of %d runs hashed differently in the plain and the race phase, but identically when executed alone in fresh processes of both modes: the library keeps state outside its engines, runs depend on what their process executed before; not counted as harness trouble\n", ev.crossDone-ev.crossAgreed, ev.crossDone)
				ev.probes["runs_depending_on_process_history"] = ev.crossDone - ev.crossAgreed
				ev.crossDone, ev.crossAgreed = 0, 0
			}
		}
		if ev.crossDone != ev.crossAgreed {
			trouble("cross-mode determinism: %d of %d runs hashed differently in the plain and the race phase (%s)", ev.crossDone-ev.crossAgreed, ev.crossDone, ev.crossFirstBad)
		}
		fmt.Printf("OK property=%s runs=%d evals=%d distinct_nontrivial=%d wall=%.0fs\n", *fProp, ev.runs, ev.evals, len(ev.distinct), ev.wall)
	}
	os.RemoveAll(scratch)
	os.Exit(exit)
}

// autoPoints reads how many scheduling points cmd/astyield inserted into the
// copy of the tree under test (check.sh leaves the number next to the
// binaries); -1 if the copy was not used.
func autoPoints() int {
	b, err := os.ReadFile(filepath.Join(*fBin, "autopoints"))
	if err != nil {
		return -1
	}
	n, err := strconv.Atoi(strings.TrimSpace(string(b)))
	if err != nil {
		return -1
	}
	return n
}

func workerCmd(ph phase, scratch string, args ...string) *exec.Cmd {
	bin := filepath.Join(*fBin, "simworker")
	if ph.Race {
		bin = filepath.Join(*fBin, "simworker-race")
	}
	if ph.Race {
		// the race build is ~50x slower per step: sample the fault plans of
		// a base instead of enumerating them
		args = append([]string{"-plancap", "40"}, args...)
	} else if *fTier == "quick" {
		// quick tier: bases with more than 400 fault plans (long concurrent
		// schedules) are sampled, so that more different bases fit in
		args = append([]string{"-plancap", "400"}, args...)
	}
	base := []string{"-prop", *fProp, "-seed", strconv.FormatUint(*fSeed, 10), "-gate", ph.Gate, "-lock", ph.Lock, "-procs", strconv.Itoa(ph.Procs), "-dir", scratch}
	if *fTier == "thorough" {
		base = append(base, "-thorough")
	}
	cmd := exec.Command(bin, append(base, args...)...)
	cmd.Env = append(os.Environ(), "GOGC=200")
	return cmd
}

func runPhase(ph phase, secs int, scratch string) ([]*stats, map[uint64]uint64) {
	deadline := time.Now().Add(time.Duration(secs) * time.Second).Unix()
	out := make([]*stats, ph.Workers)
	errs := make([]string, ph.Workers)
	var wg sync.WaitGroup
	for w := 0; w < ph.Workers; w++ {
		wg.Add(1)
		go func(w int) {
			defer wg.Done()
			hf := filepath.Join(scratch, fmt.Sprintf("hashes-%s-%d.bin", ph.Name, w))
			cmd := workerCmd(ph, scratch, "-worker", strconv.Itoa(w), "-workers", strconv.Itoa(ph.Workers), "-deadline", strconv.FormatInt(deadline, 10), "-hashes", hf)
			if ph.Race && w%2 == 1 {
				// half of the race-build workers run with 16 Ps: code whose
				// behaviour depends on GOMAXPROCS (parallel paths) gets both
				cmd.Args = append(cmd.Args, "-procs", "16")
			}
			if ph.Race {
				lp := filepath.Join(scratch, fmt.Sprintf("race-%s-%d", ph.Name, w))
				cmd.Args = append(cmd.Args, "-racelog", lp)
				cmd.Env = append(cmd.Env, "GORACE=halt_on_error=0 log_path="+lp)
			}
			var stderr bytes.Buffer
			cmd.Stderr = &stderr
			b, err := cmd.Output()
			st := &stats{}
			if jerr := json.Unmarshal(b, st); jerr != nil {
				errs[w] = fmt.Sprintf("worker %d of phase %s: %v / %v\nstderr: %s", w, ph.Name, err, jerr, tail(stderr.String(), 3000))
				return
			}
			out[w] = st
		}(w)
	}
	wg.Wait()
	anyViolation := false
	for _, st := range out {
		anyViolation = anyViolation || (st != nil && st.Violation != nil)
	}
	for w, e := range errs {
		if e == "" {
			continue
		}
		if !anyViolation {
			trouble("%s", e)
		}
		// a violation found by another worker is confirmed and replayed in a
		// fresh process anyway; a worker that died next to it is reported
		// but does not mask it
		fmt.Printf("note: %s\n", firstN(e, 600))
		out[w] = &stats{Probes: map[string]int{}, Faults: map[string]int{}}
	}
	hashes := map[uint64]uint64{}
	for w := 0; w < ph.Workers; w++ {
		b, _ := os.ReadFile(filepath.Join(scratch, fmt.Sprintf("hashes-%s-%d.bin", ph.Name, w)))
		for len(b) >= 17 {
			hashes[binary.LittleEndian.Uint64(b)] = binary.LittleEndian.Uint64(b[8:])
			b = b[17:]
		}
	}
	return out, hashes
}

func tail(s string, n int) string {
	if len(s) > n {
		return s[len(s)-n:]
	}
	return s
}

// detCheck re-runs the first runs of worker 0 of the phase in a fresh process
// (about 5% of the phase, between 8 and 400 runs) and compares run hashes.
func detCheck(ph phase, scratch string, hashes map[uint64]uint64, done, agreed int) (int, int) {
	n := len(hashes) / 20 / ph.Workers * ph.Workers / ph.Workers
	if n < 8 {
		n = 8
	}
	if n > 400 {
		n = 400
	}
	hf := filepath.Join(scratch, "hashes-det.bin")
	cmd := workerCmd(ph, scratch, "-worker", "0", "-workers", strconv.Itoa(ph.Workers), "-maxruns", strconv.Itoa(n), "-hashes", hf, "-samples", "0", "-enumlimit", "20")
	if ph.Race {
		lp := filepath.Join(scratch, "race-det")
		cmd.Args = append(cmd.Args, "-racelog", lp)
		cmd.Env = append(cmd.Env, "GORACE=halt_on_error=0 log_path="+lp)
	}
	if _, err := cmd.Output(); err != nil {
		trouble("determinism re-run failed: %v", err)
	}
	b, _ := os.ReadFile(hf)
	for len(b) >= 17 {
		idx, h := binary.LittleEndian.Uint64(b), binary.LittleEndian.Uint64(b[8:])
		if h0, ok := hashes[idx]; ok {
			done++
			if h0 == h {
				agreed++
			}
		}
		b = b[17:]
	}
	return done, agreed
}

// singleRunHash executes run idx alone in a fresh worker process of phase ph.
func singleRunHash(ph phase, scratch string, idx uint64) (uint64, bool) {
	hf := filepath.Join(scratch, fmt.Sprintf("hashes-single-%s-%d.one", ph.Name, idx))
	cmd := workerCmd(ph, scratch, "-from", strconv.FormatUint(idx, 10), "-worker", "0", "-workers", "1", "-maxruns", "1", "-hashes", hf, "-samples", "0", "-enumlimit", "20")
	if ph.Race {
		lp := filepath.Join(scratch, fmt.Sprintf("race-single-%d", idx))
		cmd.Args = append(cmd.Args, "-racelog", lp)
		cmd.Env = append(cmd.Env, "GORACE=halt_on_error=0 log_path="+lp)
	}
	if _, err := cmd.Output(); err != nil {
		return 0, false
	}
	b, _ := os.ReadFile(hf)
	if len(b) < 17 {
		return 0, false
	}
	return binary.LittleEndian.Uint64(b[8:]), true
}

func loadKnown() []knownFinding {
	b, err := os.ReadFile(filepath.Join(*fVerif, "known_findings.json"))
	if err != nil {
		return nil
	}
	var kf struct {
		Findings []knownFinding `json:"findings"`
	}
	if err := json.Unmarshal(b, &kf); err != nil {
		trouble("known_findings.json: %v", err)
	}
	return kf.Findings
}

func replayFile(ph phase, scratch, path string) (*replayOutcome, error) {
	cmd := workerCmd(ph, scratch, "-replay", path)
	if ph.Race {
		lp := path + ".racelog"
		cmd.Args = append(cmd.Args, "-racelog", lp)
		cmd.Env = append(cmd.Env, "GORACE=halt_on_error=0 log_path="+lp)
		defer func() {
			ms, _ := filepath.Glob(lp + ".*")
			for _, m := range ms {
				os.Remove(m)
			}
		}()
	}
	b, err := cmd.Output()
	ro := &replayOutcome{}
	if jerr := json.Unmarshal(b, ro); jerr != nil {
		return nil, fmt.Errorf("replay: %v / %v", err, jerr)
	}
	return ro, nil
}

// handleViolation confirms the violation in a fresh process, minimises it,
// replays the minimised file once more, writes the replay file and prints the
// verdict line.  Returns the exit code.
func handleViolation(v *replay, ph phase, scratch string, ev *evidence) int {
	os.MkdirAll(filepath.Join(*fOut, "replays"), 0o755)
	path := filepath.Join(*fOut, "replays", fmt.Sprintf("%s-%d-run%d.json", *fProp, *fSeed, v.Run))
	b, _ := json.Marshal(v)
	if err := os.WriteFile(path, b, 0o644); err != nil {
		trouble("%v", err)
	}
	ro, err := replayFile(ph, scratch, path)
	if err != nil {
		trouble("%v", err)
	}
	if strings.HasPrefix(v.Class, "race:") {
		// Whether the detector still remembers the earlier of two
		// conflicting accesses depends on its bounded shadow memory (four
		// cells per word, evicted at random): one and the same schedule is
		// reported in most, not in all, executions.  Replay a few times.
		for try := 0; try < 6 && !core.SameClass(ro.Class, v.Class); try++ {
			if ro, err = replayFile(ph, scratch, path); err != nil {
				trouble("%v", err)
			}
		}
	}
	if !core.SameClass(ro.Class, v.Class) {
		// Not a function of this run alone.  Either the harness is not
		// deterministic - or the library keeps state outside its engines
		// (package-level caches) and the run was influenced by the runs the
		// same worker process executed before it.  The second case is
		// decided by re-executing that worker's whole sequence of runs in
		// one fresh process.
		if code, done := processHistoryViolation(v, ph, scratch, path, ev); done {
			return code
		}
		if strings.HasPrefix(v.Class, "race:") {
			// The report itself is the evidence: the Go race detector has no
			// false positives, and reports that do not involve the library on
			// both sides were already sorted out by the worker.  It is
			// reported although seven replays did not make the detector
			// speak again; the replay file says so.
			final := *v
			final.Shrunk = map[string]any{"replays_that_reproduced_the_report": 0, "replays_tried": 7, "note": "race report kept from the batch run; detection of this race depends on the detector's bounded shadow memory"}
			fb, _ := json.MarshalIndent(&final, "", " ")
			os.WriteFile(path, fb, 0o644)
			ev.violations = 1
			fmt.Printf("violation class: %s (race report of the batch run; not reproduced by 7 replays of the same schedule)\n%s\n", v.Class, firstN(v.Detail, 4000))
			fmt.Printf("VIOLATION property=%s replay=%s\n", *fProp, path)
			return 1
		}
		// The tree under test may be nondeterministic by itself (map
		// iteration order that reaches results, goroutines or randomness
		// of its own): the same choices then violate in some executions
		// only.  An answer that differs from the reference was produced by
		// the library, whatever the schedule - it is evidence like a race
		// report is - but it is reported only if the same script violates
		// again in at least one of eight more fresh processes.
		if code, ok := reportFlaky(v, ph, scratch, path, ev); ok {
			return code
		}
		if notReproducedMsg == "" {
			notReproducedMsg = fmt.Sprintf("violation %q of run %d did not reproduce in a fresh process (got %q), neither alone (10 attempts) nor after the runs its worker had executed before it (and neither did up to three further candidates): harness nondeterminism, not reported as a violation; file kept at %s", v.Class, v.Run, ro.Class, path)
		}
		return -1
	}
	// minimise
	args := []string{"-shrink", path}
	if ph.Race && strings.HasPrefix(v.Class, "race:") {
		args = append(args, "-subprocess", "-budget", "150")
	}
	cmd := workerCmd(ph, scratch, args...)
	if out, err := cmd.CombinedOutput(); err != nil {
		fmt.Printf("note: minimisation failed (%v: %s); reporting the unminimised run\n", err, tail(string(out), 500))
		os.WriteFile(path, b, 0o644)
	}
	ro, err = replayFile(ph, scratch, path)
	if err != nil {
		trouble("%v", err)
	}
	if !core.SameClass(ro.Class, v.Class) {
		// fall back to the unminimised, confirmed run
		os.WriteFile(path, b, 0o644)
		if ro, err = replayFile(ph, scratch, path); err != nil || !core.SameClass(ro.Class, v.Class) {
			if code, ok := reportFlaky(v, ph, scratch, path, ev); ok {
				return code
			}
			if notReproducedMsg == "" {
				notReproducedMsg = fmt.Sprintf("minimised and original replay both failed to reproduce %q", v.Class)
			}
			return -1
		}
	}
	// final file: minimised script + human-readable rendering
	fb, _ := os.ReadFile(path)
	final := &replay{}
	json.Unmarshal(fb, final)
	final.Class, final.Detail, final.Choices, final.Sample, final.RunHash = ro.Class, ro.Detail, ro.Choices, ro.Sample, ro.RunHash
	fb, _ = json.MarshalIndent(final, "", " ")
	os.WriteFile(path, fb, 0o644)

	for _, k := range loadKnown() {
		if k.Property != *fProp || k.Status != "known" {
			continue
		}
		cm, _ := regexp.MatchString(k.Class, final.Class)
		dm := true
		if k.Detail != "" {
			dm, _ = regexp.MatchString(k.Detail, final.Detail)
		}
		if cm && dm {
			fmt.Printf("KNOWN-FINDING: property=%s %s\n", *fProp, k.What)
			ev.known++
			return 0
		}
	}
	ev.violations = 1
	fmt.Printf("violation class: %s\n%s\n", final.Class, tail(firstN(final.Detail, 4000), 4000))
	fmt.Printf("VIOLATION property=%s replay=%s\n", *fProp, path)
	return 1
}

// reportFlaky handles a violation whose script violates in some executions
// only.  The tree under test may be nondeterministic by itself (map iteration
// order that reaches results, goroutines or randomness of its own).  An answer
// that differs from the reference was produced by the library, whatever the
// schedule - it is evidence like a race report is - but it is reported only if
// the same script violates again in at least one of eight more fresh
// processes.
func reportFlaky(v *replay, ph phase, scratch, path string, ev *evidence) (int, bool) {
	hits := 0
	var seen *replayOutcome
	for try := 0; try < 8; try++ {
		r2, err := replayFile(ph, scratch, path)
		if err == nil && core.SameClass(r2.Class, v.Class) {
			hits++
			seen = r2
		}
	}
	if hits == 0 {
		return 0, false
	}
	final := *v
	final.Class, final.Detail = seen.Class, seen.Detail
	final.Flaky = true
	final.Shrunk = map[string]any{"replays_that_reproduced_the_violation": hits, "replays_tried": 8, "note": "the same script violates in some executions only: the tree under test is not deterministic (not minimised)"}
	fb, _ := json.MarshalIndent(&final, "", " ")
	os.WriteFile(path, fb, 0o644)
	ev.violations = 1
	fmt.Printf("violation class: %s (the same script reproduced it in %d of 8 more fresh processes: the tree under test is not deterministic by itself)\n%s\n", final.Class, hits, firstN(final.Detail, 4000))
	fmt.Printf("VIOLATION property=%s replay=%s\n", *fProp, path)
	return 1, true
}

// runListOutcome executes the given run indices in order in ONE fresh worker
// process and returns the violation it stopped at, if any.
func runListOutcome(ph phase, scratch string, list []uint64) *replay {
	strs := make([]string, len(list))
	for i, v := range list {
		strs[i] = strconv.FormatUint(v, 10)
	}
	cmd := workerCmd(ph, scratch, "-runlist", strings.Join(strs, ","), "-samples", "0")
	if ph.Race {
		lp := filepath.Join(scratch, fmt.Sprintf("race-runlist-%d", time.Now().UnixNano()))
		cmd.Args = append(cmd.Args, "-racelog", lp)
		cmd.Env = append(cmd.Env, "GORACE=halt_on_error=0 log_path="+lp)
	}
	b, err := cmd.Output()
	st := &stats{}
	if jerr := json.Unmarshal(b, st); jerr != nil || err != nil {
		return nil
	}
	return st.Violation
}

// processHistoryViolation handles a violation that is a function of the
// worker process's history rather than of one run.
func processHistoryViolation(v *replay, ph phase, scratch, path string, ev *evidence) (int, bool) {
	w := v.Run % uint64(ph.Workers)
	var list []uint64
	for i := w; i <= v.Run; i += uint64(ph.Workers) {
		list = append(list, i)
	}
	same := func(l []uint64) bool {
		got := runListOutcome(ph, scratch, l)
		return got != nil && got.Run == v.Run && core.SameClass(got.Class, v.Class)
	}
	if !same(list) {
		return 0, false
	}
	// minimise the history: drop chunks of earlier runs while the last run
	// still fails in the same way (each test is one fresh process)
	tests := 0
	for size := len(list) / 2; size >= 1 && tests < 60; size /= 2 {
		for start := 0; start+size < len(list) && tests < 60; {
			cand := append(append([]uint64(nil), list[:start]...), list[start+size:]...)
			tests++
			if same(cand) {
				list = cand
				continue
			}
			start += size
		}
	}
	final := *v
	final.RunList = list
	final.Shrunk = map[string]any{"process_history_runs_before": int(v.Run/uint64(ph.Workers)) + 1, "process_history_runs_after": len(list), "fresh_processes_used": tests + 1}
	fb, _ := json.MarshalIndent(&final, "", " ")
	os.WriteFile(path, fb, 0o644)
	for _, k := range loadKnown() {
		if k.Property != *fProp || k.Status != "known" {
			continue
		}
		cm, _ := regexp.MatchString(k.Class, final.Class)
		dm := true
		if k.Detail != "" {
			dm, _ = regexp.MatchString(k.Detail, final.Detail)
		}
		if cm && dm {
			fmt.Printf("KNOWN-FINDING: property=%s %s\n", *fProp, k.What)
			ev.known++
			return 0, true
		}
	}
	ev.violations = 1
	fmt.Printf("violation class: %s (depends on the history of the process: replay executes runs %v in one fresh process)\n%s\n", final.Class, list, firstN(final.Detail, 4000))
	fmt.Printf("VIOLATION property=%s replay=%s\n", *fProp, path)
	return 1, true
}

func firstN(s string, n int) string {
	if len(s) > n {
		return s[:n]
	}
	return s
}

type evidence struct {
	prop, tier                                 string
	seed                                       uint64
	runs, invalid, nontrivial, skipped         int
	steps, evals                               int64
	probes, faults                             map[string]int
	hll                                        *core.HLL
	distinct                                   map[uint64]bool
	samples                                    []map[string]any
	invalidWhy                                 []string
	phaseInfo                                  []map[string]any
	detDone, detAgreed, crossDone, crossAgreed int
	crossFirstBad                              string
	crossBad                                   []uint64
	violations, known                          int
	wall                                       float64
	workerWall                                 float64
	scratch                                    string
}

func (e *evidence) merge(st *stats) {
	e.runs += st.Runs
	e.invalid += st.Invalid
	e.skipped += st.Skipped
	e.nontrivial += st.Nontrivial
	e.steps += st.Steps
	e.evals += st.Evals
	e.workerWall += st.WallS
	for k, v := range st.Probes {
		if strings.HasPrefix(k, "max_") {
			if v > e.probes[k] {
				e.probes[k] = v
			}
		} else {
			e.probes[k] += v
		}
	}
	for k, v := range st.Faults {
		e.faults[k] += v
	}
	e.hll.Merge(&core.HLL{Reg: st.HLL})
	if len(e.samples) < 4 {
		for _, s := range st.Samples {
			if len(e.samples) < 4 {
				e.samples = append(e.samples, s)
			}
		}
	}
	if len(e.invalidWhy) < 3 {
		e.invalidWhy = append(e.invalidWhy, st.InvalidWhy...)
	}
}

func (e *evidence) write(path string) {
	// exact distinct count of non-trivial runs, from the per-run hash records
	ms, _ := filepath.Glob(filepath.Join(e.scratch, "hashes-*.bin*"))
	for _, m := range ms {
		if strings.HasSuffix(m, "hashes-det.bin") {
			continue
		}
		b, _ := os.ReadFile(m)
		for len(b) >= 17 {
			if b[16] == 1 {
				e.distinct[binary.LittleEndian.Uint64(b[8:])] = true
			}
			b = b[17:]
		}
	}
	if len(e.samples) == 0 {
		e.samples = []map[string]any{{"note": "no non-trivial sample was rendered in this run"}}
	}
	zero := []string{}
	for k, v := range e.probes {
		if v == 0 {
			zero = append(zero, k)
		}
	}
	sort.Strings(zero)
	meta := propMeta[e.prop]
	cov := map[string]any{
		"evaluations":                       e.evals,
		"distinct_nontrivial":               len(e.distinct),
		"rule":                              meta.rule,
		"samples":                           e.samples,
		"exhaustive":                        false,
		"simulated_runs":                    e.runs,
		"runs_discarded_workload_invalid":   e.invalid,
		"runs_abandoned_by_design":          e.skipped,
		"workload_invalid_reasons":          e.invalidWhy,
		"nontrivial_runs":                   e.nontrivial,
		"scheduler_steps":                   e.steps,
		"simulated_time":                    "n/a: no clock or timer is in scope of this property; logical scheduler steps are reported instead",
		"runs_per_hour":                     int(float64(e.runs) / (e.wall + 0.001) * 3600),
		"seeds":                             fmt.Sprintf("run i uses seed splitmix64(VERIF_SEED xor i*phi); VERIF_SEED=%d", e.seed),
		"distinct_abstract_states_estimate": e.hll.Estimate(),
		"state_measure":                     meta.stateMeasure,
		"fault_kinds_fired":                 e.faults,
		"reach_probes":                      e.probes,
		"reach_probes_at_zero":              zero,
		"phases":                            e.phaseInfo,
		"determinism_double_runs":           map[string]int{"done": e.detDone, "agreed": e.detAgreed},
		"determinism_cross_mode_runs":       map[string]int{"done": e.crossDone, "agreed": e.crossAgreed},
		"components_real":                   meta.real,
		"components_stub":                   meta.stub,
		"known_findings_hit":                e.known,
		"automatic_scheduling_points_inserted_in_scratch_copy": *fAuto,
	}
	doc := map[string]any{
		"property_id": e.prop,
		"tier":        e.tier,
		"seed":        e.seed,
		"level":       levels[e.prop],
		"coverage":    cov,
		"assumptions": meta.assumptions,
		"wall_s":      e.wall,
		"violations":  e.violations,
	}
	b, _ := json.MarshalIndent(doc, "", " ")
	os.MkdirAll(filepath.Dir(path), 0o755)
	if err := os.WriteFile(path, b, 0o644); err != nil {
		trouble("%v", err)
	}
}
