package main

type meta struct {
	rule         string
	stateMeasure string
	real, stub   []string
	assumptions  []string
}

var commonReal = []string{
	"rules (parser, NetworkRule/HostRule/CosmeticRule matching, lazy regexp compile)",
	"filterlist (RuleStorage cache + RWMutex, StringRuleList, FileRuleList incl. os.File Seek/Read on real files, RuleScanner, readLine)",
	"lookup (ShortcutsTable, DomainsTable, SeqScanTable)",
	"urlfilter.NetworkEngine, DNSEngine (incl. syncutil.Pool/sync.Pool), Engine, CosmeticEngine",
	"Go runtime scheduler for everything but the choice of who runs (one task runnable at a time); Go race runtime in the race-build phase",
}

var commonAssume = []string{
	"verif-tagged hooks in /repo are add-only scheduling points; with the tag off they are empty inlinable functions",
	"oracles are self-referential (fresh engine / sequential execution / fault-free execution of the same code): a defect that is wrong identically on every path is invisible here",
	"list sizes stay far below 2 GiB (offsets fit 31 bits); workloads come from the harness corpus (small host alphabet, see sim/workload/corpus.go)",
	"sampled, not exhaustive, in the plan and schedule dimensions: a clean batch is evidence, not proof",
}

var propMeta = map[string]meta{
	"C14": {
		rule:         "one evaluation = one simulated run: a seeded plan (1-3 rule lists over a small host alphabet incl. hash-colliding names, String/File backing, read-buffer knob, cold or partly warm cache, 2..32 caller tasks, each a sequence of DNS/web/MatchAll/Match/cosmetic queries drawn from a small shared request pool with one-field-apart neighbours) executed under the seeded cooperative scheduler (strategies: random, sticky, PCT depth 1-3, herd; 2% of the runs release once a task in front of a held lock to exercise non-blocking lock attempts) at hand-placed yield points (before and inside the cache critical sections, around the list mutex, between Seek and read and between block reads, around lazy compilation, pool get/put, after each retrieval) plus automatic yield points that cmd/astyield inserts into a scratch copy in front of synchronisation operations without a hand-placed hook; every answer (order and multiplicity included) is compared with the answer of the same query run alone on a separate storage built from the same plan; deadlocks are detected (no enabled task; or, after a run had to be abandoned, all goroutines blocked) and bounded progress is demanded of a fair schedule (at 50x the sequential step count the run goes on least-recently-run-first for as many steps again); the race-build phase re-executes the same run indices through a hand-off the race detector cannot see. Non-trivial = at least one preemption of a still-enabled task and more steps than 2x tasks. Distinct = distinct hash of the (task, point, object) event sequence plus all answers.",
		stateMeasure: "HyperLogLog estimate (2^14 registers, ~0.8% std error) over per-decision abstract states = vector of the yield point every task is parked at",
		real:         commonReal,
		stub:         []string{"none in this check (list files are real files in a scratch directory)"},
		assumptions: append([]string{
			"DRF-SC: for race-free code every behaviour is determined by the order of synchronisation operations; every sync op on the query path has a yield point in front of it, so yield-granularity schedules cover them; race-freedom itself is checked by the race-build phase",
			"the Go race detector has no false positives; hand-off through raw read/write syscalls adds no happens-before edge (verified: mutants are reported although accesses never overlap in real time)",
		}, commonAssume...),
	},
	"C13": {
		rule:         "one evaluation = one simulated query history on long-lived engines (DNSEngine, Engine, NetworkEngine over one storage): the history is planned first (seeded lists, 1..400 operations mixing DNS/web/MatchAll/Match/cosmetic queries with neighbours that differ in exactly one field - client name/IP/tags/record type/Answer flag, content type, URL path, URL case, source page, client of a URL-style request, cosmetic host - and with repeats and rare request shapes (upper case, trailing dot, IP literals, 60-byte labels, URLs over 4 KiB); derived evaluations (DNSRewrites, DNSRewritesAll, GetDNSBasicRule, GetBasicResult, GetCosmeticOption, NewMatchingResult) on any of the last 16 results; request-pool flushes by double GC; cold or pre-warmed cache; in one run of eight a flood of 150-1500 distinct requests whose first dozen are asked again); then the fresh answer of every distinct request is computed in ANOTHER PROCESS (replaced by a new one every 16 runs, so that process-wide state of the library is young there and old in the worker), each on a brand-new storage and engine, in reverse order of first appearance; then the history is executed. After every query the answer must equal the fresh one, after every step every retained earlier result must equal its snapshot, the input fields of the caller's request object must be unchanged. Non-trivial = >= 3 queries, at least one repeat or one-field-apart pair, and at least one derived evaluation on an old result. Distinct = distinct hash of the history's (request, answer) sequence.",
		stateMeasure: "HyperLogLog estimate over per-step hidden states = (rule-cache size, pool flushed-or-not since last DNS query, number of retained results, queries so far)",
		real:         commonReal,
		stub:         []string{"none"},
		assumptions: append([]string{
			"GOMAXPROCS(1) with GC only where the Chooser places it makes sync.Pool recycling deterministic (measured: Get-after-Put recycles 1000/1000; two runtime.GC() empty the pool)",
		}, commonAssume...),
	},
	"C11": {
		rule:         "one evaluation = one simulated I/O run: seeded list contents from line classes (network/host/cosmetic rules, comments, blank, invalid, leading/trailing blanks, multi-byte UTF-8, invalid UTF-8, NUL, BOM, exotic white space, stray CR at any position, lines whose kind is easy to get wrong, LF/CRLF/mixed endings, no final newline, lines within +-20 bytes of 1x/2x/3x the read buffer, 4097..9000 bytes, rarely > 64 KiB, rarely one line of 1.0-1.2 MiB, consecutive lines equal under Unicode case folding, ids and lines that glue ambiguously (id 1 with '10.0.0.1 h' vs id 11 with '0.0.0.1 h'), rarely 18-48 thousand lines so that offsets pass 1 MiB), 1-4 lists with distinct ids from a pool of 16 incl. negative, zero, extreme and >16-bit ones, IgnoreCosmetic on/off; the stream the scanner reads is cut by a seeded read-size schedule (1..k bytes per Read, k in 1..8192); every storage configuration (in-memory, file with the default buffer, file with a knob buffer of 1/2/3/7/64/4096 bytes, seeded mix) is scanned twice (after a scan abandoned half-way) and compared with the reference; the index reported with a rule must be the same for every backing and distinct per rule (no particular packing is demanded); every yielded index is retrieved in a seeded permutation three times through the storage and once through the list, and through a second storage over the same list objects; the block reader is run at yielded offsets over short-read readers; engines over all backings are compared on requests derived from the lists. Reference = split on LF + the repository's own rules.NewRule per line. Non-trivial = at least one yielded rule and (a line spanning more than one read block or a chunk boundary inside CRLF/UTF-8 or >1 list). Distinct = distinct hash of (contents, ids, read schedule).",
		stateMeasure: "HyperLogLog estimate over (list content hash, buffer size, chunk-size bound) configurations",
		real:         commonReal,
		stub:         []string{"ChunkReader (io.Reader with seeded read sizes) feeds NewRuleScanner and readLine in the read-schedule sub-checks; file-backed sub-checks use real files"},
		assumptions:  commonAssume,
	},
	"C19": {
		rule:         "one evaluation = one execution of a query history or concurrent schedule with ONE fault plan. For each sampled (lists, history) every fault instant k, every fault kind (storage Close, file Close, handle swapped for a closed descriptor, handle swapped for a directory descriptor so that Seek works and Read fails, stub permanent error, stub transient error for 1 or 3 retrievals) and every target list is executed, plus double faults (exhaustive in instant x kind x target for that history, up to 1500 plans per base (400 in the quick tier), seeded sample beyond; the race-build phase samples 40); in a quarter of the bases the queries after the fault are repeated 6 or 40 times (error counters); rarely the base is one file-backed list of 8.5-39 thousand rules (thorough tier: up to 72 thousand) that a flood materialises completely before the fault (bounded caches), or a list of 90-250 KiB of which the flood materialises three rules in four (block caches); one base in eight holds a directed constellation: a rule reachable through two keys of an index ($domain rule on two domains, hosts line with two names) that is asked through one key at the start and through the other at the end of the history, or two hosts rules with colliding name hashes in two lists. For each sampled concurrent base schedule every scheduling step is a fault instant; the fault is performed by a task of its own that the scheduler releases at that instant, so it can land between a cache miss and the insert, between Seek and read, between two block reads of one line. Oracle per query at/after the fault: no panic; no nil rule; returned network rules are a sub-multiset of the fault-free answer; returned host rules are in the fault-free answer or, if that answer stopped at a network rule, truly match the name; NetworkRule and every DNSRewrites() element are among the returned NetworkRules; matched is consistent; rules served by queries that completed before this one started (lines unique in their list) or living in in-memory lists are still present; results handed out earlier do not change after the fault. A wrong answer, panic, changed result or deadlock while every list is still readable is not a C19 violation: the run is left to C11/C13/C14 and counted (probe anomaly_before_any_fault_left_to_C11_C13_C14). Non-trivial = the fault changed at least one answer or landed with a query in flight. Distinct = distinct hash of (plan, fault plan, answers).",
		stateMeasure: "HyperLogLog estimate over per-decision abstract states (yield-point vector x fault-active flag) in the concurrent part, and (history prefix length, fault kind, target) in the sequential part",
		real:         commonReal,
		stub:         []string{"FaultyRuleList: an implementation of the public filterlist.RuleList interface that wraps a real list and returns (nil, error) while a fault is active (kinds stub_permanent, stub_transient); all other fault kinds act on real files/descriptors"},
		assumptions: append([]string{
			"'unreadable' means reads fail (closed or swapped descriptors, failing RuleList); truncating or rewriting a list file under a live engine changes content and is outside the property",
		}, commonAssume...),
	},
}
