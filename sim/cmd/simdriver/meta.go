package main

type meta struct {
	rule         string
	stateMeasure string
	real, stub   []string
	assumptions  []string
}

var commonReal = []string{
	"rules (parser, NetworkRule/HostRule/CosmeticRule matching, lazy regexp compile)",
	"filterlist (RuleStorage cache + RWMutex, StringRuleList, FileRuleList incl. os.File Seek/Read on real files, RuleScanner, readLine)",
	"lookup (ShortcutsTable, DomainsTable, SeqScanTable)",
	"urlfilter.NetworkEngine, DNSEngine (incl. syncutil.Pool/sync.Pool), Engine, CosmeticEngine",
	"Go runtime scheduler for everything but the choice of who runs (one task runnable at a time); Go race runtime in the race-build phase",
}

var commonAssume = []string{
	"verif-tagged hooks in /repo are add-only scheduling points; with the tag off they are empty inlinable functions",
	"oracles are self-referential (fresh engine / sequential execution / fault-free execution of the same code): a defect that is wrong identically on every path is invisible here",
	"list sizes stay far below 2 GiB (offsets fit 31 bits); workloads come from the harness corpus (small host alphabet, see sim/workload/corpus.go)",
	"sampled, not exhaustive, in the plan and schedule dimensions: a clean batch is evidence, not proof",
}

var propMeta = map[string]meta{
	"C14": {
		rule:         "one evaluation = one simulated run: a seeded plan (1-3 rule lists, String/File backing, read-buffer knob, cold or partly warm cache, 2..32 caller tasks, each a sequence of DNS/web/MatchAll/Match/cosmetic queries drawn from a small shared request pool) executed under the seeded cooperative scheduler (strategies: random, sticky, PCT depth 1-3, herd) at the cache/file-read/lazy-compile/pool/retrieve yield points; every answer is compared with the answer of the same query run alone on a separate storage built from the same plan; the race-build phase re-executes the same run indices through a hand-off the race detector cannot see. Non-trivial = at least one preemption of a still-enabled task and more steps than 2x tasks. Distinct = distinct hash of the (task, point, object) event sequence plus all answers.",
		stateMeasure: "HyperLogLog estimate (2^14 registers, ~0.8% std error) over per-decision abstract states = vector of the yield point every task is parked at",
		real:         commonReal,
		stub:         []string{"none in this check (list files are real files in a scratch directory)"},
		assumptions: append([]string{
			"DRF-SC: for race-free code every behaviour is determined by the order of synchronisation operations; every sync op on the query path has a yield point in front of it, so yield-granularity schedules cover them; race-freedom itself is checked by the race-build phase",
			"the Go race detector has no false positives; hand-off through raw read/write syscalls adds no happens-before edge (verified: mutants are reported although accesses never overlap in real time)",
		}, commonAssume...),
	},
	"C13": {
		rule:         "one evaluation = one simulated query history on long-lived engines (DNSEngine, Engine, NetworkEngine over one storage): seeded lists, 1..hundreds of operations mixing DNS/web/MatchAll/Match/cosmetic queries (with adjacent DNS queries engineered to differ in exactly one client field and with repeats), derived evaluations on old results, and environment steps the simulator owns (request-pool flush by double GC, cold/warm cache); after every query the answer must equal the answer of a fresh engine, after every step every retained earlier result must equal its snapshot. Non-trivial = the history has >= 3 queries, at least one repeat or one-field-apart pair, and at least one derived evaluation on an old result. Distinct = distinct hash of the history's (request, answer) sequence.",
		stateMeasure: "HyperLogLog estimate over per-step hidden states = (cache key-set hash, pool flushed-or-not since last DNS query, number of retained results)",
		real:         commonReal,
		stub:         []string{"none"},
		assumptions: append([]string{
			"GOMAXPROCS(1) with GC only where the Chooser places it makes sync.Pool recycling deterministic (measured: Get-after-Put recycles 1000/1000; two runtime.GC() empty the pool)",
		}, commonAssume...),
	},
	"C11": {
		rule:         "one evaluation = one simulated I/O run: seeded list contents (LF/CRLF, no final newline, blank/comment/invalid lines, multi-byte UTF-8, NUL, lines longer than the read buffer), 1-4 lists with distinct extreme ids, IgnoreCosmetic on/off; the stream the scanner reads is cut by a seeded read-size schedule (ChunkReader), retrieval runs through StringRuleList, FileRuleList with the default and with a knob-sized buffer, and the block reader over a seeded short-read schedule; indices are retrieved in a seeded permutation, twice; engines over String/File/mixed storages are compared on requests derived from the lists. Reference = split on LF + the repository's own rules.NewRule per line. Non-trivial = at least one yielded rule and (a line spanning more than one read block or a chunk boundary inside CRLF/UTF-8 or >1 list). Distinct = distinct hash of (contents, ids, read schedule).",
		stateMeasure: "HyperLogLog estimate over (list content hash, buffer size, chunk-size bound) configurations",
		real:         commonReal,
		stub:         []string{"ChunkReader (io.Reader with seeded read sizes) feeds NewRuleScanner and readLine in the read-schedule sub-checks; file-backed sub-checks use real files"},
		assumptions:  commonAssume,
	},
	"C19": {
		rule:         "one evaluation = one execution of a query history or concurrent schedule with ONE fault plan. For each sampled (lists, history) every fault instant k in 0..n, every fault kind (storage Close, file Close, handle swapped for a closed descriptor, handle swapped for a directory descriptor, stub permanent error, stub transient error) and every target list is executed (exhaustive in instant x kind x target for that history); for each sampled concurrent base schedule every scheduling step is a fault instant. Oracle per query at/after the fault: no panic; returned rules are a sub-multiset of the fault-free answer; rules returned by queries that completed before this one started (plus rules of in-memory lists) are still returned; before the fault answers equal the fault-free ones exactly. Non-trivial = the fault changed at least one answer or landed with a task in flight. Distinct = distinct hash of (plan, fault plan, answers).",
		stateMeasure: "HyperLogLog estimate over per-decision abstract states (yield-point vector x fault-active flag) in the concurrent part, and (history prefix length, fault kind, target) in the sequential part",
		real:         commonReal,
		stub:         []string{"FaultyRuleList: an implementation of the public filterlist.RuleList interface that wraps a real list and returns (nil, error) while a fault is active (kinds stub_permanent, stub_transient); all other fault kinds act on real files/descriptors"},
		assumptions: append([]string{
			"'unreadable' means reads fail (closed or swapped descriptors, failing RuleList); truncating or rewriting a list file under a live engine changes content and is outside the property",
		}, commonAssume...),
	},
}
