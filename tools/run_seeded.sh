#!/bin/bash
ROOT=$(cd "$(dirname "$0")/.." && pwd)
# run_seeded.sh [tier] [jobs]  run every stored seeded change against the check of its property (scratch worktrees),
# record the outcome in seeded/<id>/meta.json and seeded/RESULTS.md.  Never touches /repo's working tree.
tier=${1:-quick}; jobs=${2:-4}
cd "$ROOT"
# ONLY="id1 id2 ..." restricts the run to those seeds (the table is rebuilt from all meta.json files)
{ if [ -n "${ONLY:-}" ]; then for i in $ONLY; do echo seeded/$i; done; else ls -d seeded/*/ | sed 's#/$##'; fi; } | xargs -P "$jobs" -I{} bash -c '
  d={}; id=$(basename $d); prop=$(python3 -c "import json;print(json.load(open(\"$d/meta.json\"))[\"property\"])")
  cp $d/patch.diff /tmp/seedrun-$id.patch
  res=$(SKIP_TESTS=1 tools/try_mutant.sh /tmp/seedrun-$id.patch $prop '"$tier"' 2>&1 | tail -1); rm -f /tmp/seedrun-$id.patch
  python3 - "$d" "$res" "'"$tier"'" <<PY
import json,sys,re,time
d,res,tier=sys.argv[1:4]
m=json.load(open(d+"/meta.json"))
rc=re.search(r"rc=(\d+)",res); cls=re.search(r"violation class: (\S+)",res)
m["check_result"]={"tier":tier,"command":"VERIF_REPO=<scratch worktree with patch.diff applied> ./check.sh %s %s"%(m["property"],tier),
  "exit_code":int(rc.group(1)) if rc else None,"detected":bool(rc and rc.group(1)=="1"),"violation_class":cls.group(1) if cls else None,"raw":res[-400:]}
json.dump(m,open(d+"/meta.json","w"),indent=1)
print(res)
PY
'
ROOT="$ROOT" python3 - <<'PY'
import json,glob,os
ROOT=os.environ['ROOT']
rows=[]
for f in sorted(glob.glob(ROOT+'/seeded/*/meta.json')):
    m=json.load(open(f)); r=m.get('check_result',{})
    res='DETECTED' if r.get('detected') else 'missed (rc=%s)'%r.get('exit_code')
    if m.get('scope_note') and not r.get('detected'): res='outside the property as quantified (see meta.json)'
    rows.append("| %s | %s | %s | %s | %s |"%(m['id'],m['property'],(m.get('title') or '')[:90].replace('|','/'),res,r.get('violation_class') or ''))
open(ROOT+'/seeded/RESULTS.md','w').write("# Seeded changes vs checks (written by tools/run_seeded.sh)\n\n| id | property | change | result | violation class |\n|---|---|---|---|---|\n"+"\n".join(rows)+"\n")
print(open(ROOT+'/seeded/RESULTS.md').read())
PY
