#!/bin/bash
# soak.sh [n] [first] : quick tier of every check on the UNCHANGED tree with n different seeds; anything but exit 0 is reported.
ROOT=$(cd "$(dirname "$0")/.." && pwd); cd "$ROOT"; n=${1:-20}; first=${2:-1}; bad=0
for i in $(seq $first $((first+n-1))); do
  seed=$((7919*i+13))
  for p in C11 C13 C14 C19; do
    out=$(VERIF_SEED=$seed VERIF_OUT=$ROOT/.tmp/soak-out ./check.sh $p quick 2>&1); rc=$?
    echo "seed=$seed $p rc=$rc $(echo "$out" | tail -1 | cut -c1-120)"
    if [ $rc -ne 0 ]; then bad=$((bad+1)); echo "$out" | tail -30; cp $ROOT/.tmp/soak-out/replays/*.json $ROOT/.tmp/ 2>/dev/null; fi
  done
done
rm -rf $ROOT/.tmp/soak-out
echo "SOAK done: $bad non-zero exits"
