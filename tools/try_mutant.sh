#!/bin/bash
# try_mutant.sh <patch> <prop> [tier]   apply patch to /repo, run the check, revert. Prints the verdict.
patch=$(readlink -f "$1"); prop=$2; tier=${3:-quick}
cd /repo || exit 9
git diff --quiet || { echo "/repo dirty"; exit 9; }
git apply "$patch" || { echo "patch does not apply"; exit 9; }
trap 'git -C /repo checkout -- . ; git -C /repo clean -fdq' EXIT
export GOFLAGS=-mod=mod GOPROXY=off GOSUMDB=off GOTOOLCHAIN=local
if [ -z "${SKIP_TESTS:-}" ]; then
  go build ./... >/dev/null 2>&1 || { echo "MUTANT-DOES-NOT-BUILD"; exit 8; }
  go test -vet=off -count=1 ./... >/dev/null 2>&1 || { echo "MUTANT-FAILS-EXISTING-TESTS"; exit 7; }
fi
out=$(/verif/check.sh "$prop" "$tier" 2>&1); rc=$?
echo "$out" | grep -E "^(VIOLATION|KNOWN-FINDING|HARNESS-TROUBLE|OK|violation class|phase)" | head
echo "rc=$rc"
exit $rc
