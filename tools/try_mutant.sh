#!/bin/bash
ROOT=$(cd "$(dirname "$0")/.." && pwd)
# try_mutant.sh <patch> <prop> [tier]
# Applies the patch to a scratch worktree of /repo (never to /repo itself), checks that it builds and
# passes the existing tests, runs the check against it with all outputs in a scratch dir, removes both.
patch=$(readlink -f "$1"); prop=$2; tier=${3:-quick}
name=$(basename "$patch" .patch)
wt=/tmp/mut-wt-$name-$$; out=/tmp/mut-out-$name-$$
export GOFLAGS=-mod=mod GOPROXY=off GOSUMDB=off GOTOOLCHAIN=local
# (several of these may start at once: `git worktree add` is not safe against itself, so retry)
for try in 1 2 3 4 5; do
  git -C /repo worktree add -q --detach "$wt" HEAD 2>/dev/null && break
  [ $try = 5 ] && { echo "$name: WORKTREE-ADD-FAILED"; exit 9; }
  sleep $((RANDOM % 3 + 1))
done
cleanup() { git -C /repo worktree remove --force "$wt" 2>/dev/null; rm -rf "$out" "$wt"; }
trap cleanup EXIT
( cd "$wt" && git apply "$patch" ) || { echo "$name: PATCH-DOES-NOT-APPLY"; exit 9; }
if [ -z "${SKIP_TESTS:-}" ]; then
  ( cd "$wt" && go build ./... ) >/dev/null 2>&1 || { echo "$name: MUTANT-DOES-NOT-BUILD"; exit 8; }
  ( cd "$wt" && go test -vet=off -count=1 ./... ) >/dev/null 2>&1 || { echo "$name: MUTANT-FAILS-EXISTING-TESTS"; exit 7; }
fi
mkdir -p "$out"
res=$(VERIF_REPO="$wt" VERIF_OUT="$out" "$ROOT"/check.sh "$prop" "$tier" 2>&1); rc=$?
line=$(echo "$res" | grep -E "^(violation class|HARNESS-TROUBLE|OK )" | head -1)
runs=$(echo "$res" | grep -E "^phase" | tr '\n' ' ')
echo "$name [$prop]: rc=$rc $line | $runs"
if [ -n "${KEEP_REPLAY:-}" ] && [ $rc -eq 1 ]; then cp "$out"/replays/*.json "$KEEP_REPLAY/" 2>/dev/null; fi
exit $rc
