#!/bin/bash
ROOT=$(cd "$(dirname "$0")/.." && pwd)
# finding_replay.sh [--refresh|--force]
# The repaired defect H1 (known_findings.json, "fixed") must stay reproducible: with the repair reverted
# (mutants/c14-h1-revert.patch, scratch worktree) the committed replay file must violate C14 again, and on /repo
# as it is it must not.  A replay script answers the generators' draws, so every change of the generators makes
# the committed file stale; --refresh then finds the violation anew (same batch seed 1) and stores the minimised
# replay file of the CURRENT harness.
export GOFLAGS=-mod=mod GOPROXY=off GOSUMDB=off GOTOOLCHAIN=local
f="$ROOT/findings/C14-double-miss-duplicate-rule.replay.json"
wt=/tmp/h1-wt-$$; out=/tmp/h1-out-$$
git -C /repo worktree add -q --detach "$wt" HEAD || exit 9
trap 'git -C /repo worktree remove --force "$wt" 2>/dev/null; rm -rf "$wt" "$out"' EXIT
( cd "$wt" && git apply "$ROOT/mutants/c14-h1-revert.patch" ) || { echo "revert patch does not apply"; exit 9; }
mkdir -p "$out"
r=$(VERIF_REPO="$wt" VERIF_OUT="$out" "$ROOT"/check.sh C14 --replay "$f" 2>/dev/null | tail -1)
[ "$1" = "--force" ] && { r="forced"; set -- --refresh; }
case "$r" in
  VIOLATION*) echo "finding replay: reproduces with the repair reverted";;
  *) echo "finding replay: STALE ($r)"
     [ "$1" = "--refresh" ] || exit 1
     for s in 1 2 3 4 5; do
       rm -rf "$out"; mkdir -p "$out"
       VERIF_SEED=$s VERIF_REPO="$wt" VERIF_OUT="$out" "$ROOT"/check.sh C14 quick >/dev/null 2>&1
       n=$(ls "$out"/replays/*.json 2>/dev/null | head -1)
       [ -n "$n" ] && grep -q '"answer-mismatch' "$n" && { cp "$n" "$f"; echo "finding replay: refreshed from batch seed $s"; break; }
     done;;
esac
r=$("$ROOT"/check.sh C14 --replay "$f" 2>/dev/null | tail -1)
case "$r" in OK*) echo "finding replay: clean on /repo as it is";; *) echo "finding replay: UNEXPECTED on /repo: $r"; exit 1;; esac
