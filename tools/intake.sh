#!/bin/bash
ROOT=$(cd "$(dirname "$0")/.." && pwd)
# intake.sh <agent-out-dir> <wave-tag>   verify, store and run every change a sub-agent left in <dir>/out/<k>/
# (meta.json names the property); ids become <prop>-<wave-tag><k>
dir=$1; tag=$2; cd "$ROOT"
for d in "$dir"/out/*/; do
  d=${d%/}; k=$(basename "$d"); [ -f "$d/meta.json" ] || continue
  p=$(python3 -c "import json,sys;print(json.load(open(sys.argv[1])).get('property') or sys.argv[2])" "$d/meta.json" "${3:-}")
  v=$(tools/verify_seed.sh "$d" "$p" 2>&1 | tail -1)
  case "$v" in *": CONFIRMED") ;; *) echo "$tag$k [$p]: $v"; continue;; esac
  id=$p-$tag$k
  python3 tools/store_seed.py "$d" "$id" "$p" >/dev/null
  [ -f seeded/$id/demo_test.go ] && mv seeded/$id/demo_test.go seeded/$id/demo_test.go.txt
  SKIP_TESTS=1 tools/try_mutant.sh seeded/$id/patch.diff "$p" 2>&1 | tail -1 | sed "s/^patch.diff/$id/" | cut -c1-230
done
