#!/usr/bin/env python3
"""mkmutant.py <name> <file> <<< JSON [[old,new],...]  -> /verif/mutants/<name>.patch (repo left clean)"""
import sys, json, subprocess
name, path = sys.argv[1], sys.argv[2]
subs = json.load(sys.stdin)
p = '/repo/' + path
s = open(p).read()
for old, new in subs:
    assert s.count(old) == 1, (old, s.count(old))
    s = s.replace(old, new)
open(p, 'w').write(s)
d = subprocess.run(['git', '-C', '/repo', 'diff'], capture_output=True, text=True).stdout
open('/verif/mutants/%s.patch' % name, 'w').write(d)
subprocess.run(['git', '-C', '/repo', 'checkout', '--', '.'], check=True)
print('wrote', name, len(d))
