#!/bin/bash
ROOT=$(cd "$(dirname "$0")/.." && pwd)
# run_benign.sh [tier] : every check against every BENIGN variant (correct code with new synchronisation):
# all of them must exit 0.  Scratch worktrees only.
tier=${1:-quick}; cd "$ROOT"; fail=0
for p in benign/*.patch; do
  for prop in C14 C19 C13 C11; do
    r=$(tools/try_mutant.sh $p $prop $tier 2>&1 | tail -1); echo "$r"
    case "$r" in *"rc=0"*) ;; *) fail=1;; esac
  done
done
exit $fail
