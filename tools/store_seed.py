#!/usr/bin/env python3
"""store_seed.py <src-dir> <seed-id> <prop> [patch-override]  copy a confirmed sub-agent change into /verif/seeded/<seed-id>/"""
import sys, json, os, shutil, glob
src, sid, prop = sys.argv[1], sys.argv[2], sys.argv[3]
patch = sys.argv[4] if len(sys.argv) > 4 else os.path.join(src, 'patch.diff')
dst = '/verif/seeded/' + sid
os.makedirs(dst, exist_ok=True)
shutil.copy(patch, dst + '/patch.diff')
for f in glob.glob(src + '/*_test.go') + glob.glob(src + '/*.go'):
    shutil.copy(f, dst + '/' + os.path.basename(f) + '.txt' if False else dst + '/' + os.path.basename(f))
m = json.load(open(src + '/meta.json'))
meta = {
    'id': sid, 'property': prop, 'origin': 'independent sub-agent given only the property text and a scratch worktree',
    'title': m.get('title'), 'what_it_breaks': m.get('what_it_breaks'), 'needs_to_manifest': m.get('needs_to_manifest'),
    'files_changed': m.get('files_changed'), 'demo_package_dir': m.get('demo_package_dir'), 'demo_command': m.get('demo_command'),
    'demo_observed_with_change': m.get('observed_with_change'), 'demo_observed_without_change': m.get('observed_without_change'),
    'confirmed_by_me': 'tools/verify_seed.sh: patch applies to a scratch worktree of /repo HEAD, `go build ./...` and the existing suite pass with it, the demo passes without the change and fails with it',
}
json.dump(meta, open(dst + '/meta.json', 'w'), indent=1)
print('stored', sid)
