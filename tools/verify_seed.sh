#!/bin/bash
ROOT=$(cd "$(dirname "$0")/.." && pwd)
# verify_seed.sh <seed-dir> <prop>   confirm a sub-agent's seeded change: applies, builds, existing tests pass,
# demo fails with it and passes without it; then run our check against it.  All in scratch worktrees.
dir=$(readlink -f "$1"); prop=$2
name=$(basename "$(dirname "$dir")")-$(basename "$dir")
export GOFLAGS=-mod=mod GOPROXY=off GOSUMDB=off GOTOOLCHAIN=local
wt=/tmp/vs-wt-$name-$$
git -C /repo worktree add -q --detach "$wt" HEAD || exit 9
trap 'git -C /repo worktree remove --force "$wt" 2>/dev/null; rm -rf "$wt"' EXIT
pkgdir=$(python3 -c "import json,sys; print(json.load(open(sys.argv[1]))['demo_package_dir'])" "$dir/meta.json")
cmd=$(python3 -c "import json,sys; print(json.load(open(sys.argv[1]))['demo_command'])" "$dir/meta.json")
# normalise: strip any leading 'cd ... &&' and env assignments; run inside our worktree
cmd=$(echo "$cmd" | sed -E 's#^.*(go test .*)$#\1#; s#[[:space:]]+\(.*$##')
pk=$(echo "$pkgdir" | sed -E "s#^/tmp/seed-[A-Za-z0-9-]+/?##; s#^\./##; s#^\(repo root\).*##; s#^repo root.*##; s# .*##")
[ -z "$pk" ] && pk=.
[ -d "$wt/$pk" ] || pk=.
demo=$(ls "$dir"/*_test.go | head -1)
runDemo() { cp "$demo" "$wt/$pk/zz_seed_demo_test.go"; ( cd "$wt" && timeout 600 bash -c "$cmd" ) >/tmp/vs-$name-$1.log 2>&1; rc=$?; rm -f "$wt/$pk/zz_seed_demo_test.go"; return $rc; }
runDemo without; rc0=$?
( cd "$wt" && git apply "$dir/patch.diff" ) || { echo "$name: PATCH-DOES-NOT-APPLY"; exit 9; }
( cd "$wt" && go build ./... && go test -vet=off -count=1 ./... ) >/tmp/vs-$name-suite.log 2>&1; rcs=$?
runDemo with; rc1=$?
echo "$name: demo_without_rc=$rc0 suite_with_rc=$rcs demo_with_rc=$rc1  (cmd: $cmd in $pk)"
[ $rc0 -eq 0 ] && [ $rcs -eq 0 ] && [ $rc1 -ne 0 ] && echo "$name: CONFIRMED" || echo "$name: NOT-CONFIRMED"
