#!/bin/bash
ROOT=$(cd "$(dirname "$0")/.." && pwd)
# determinism.sh [runs-per-process]   prove that a run is a pure function of its seed:
# every property, same run indices, in many fresh processes across gates, lock modes, GOMAXPROCS values and both builds.
N=${1:-300}
cd "$ROOT" && ./check.sh --build-only || exit 2
B="$ROOT"/.bin/setup; mkdir -p "$ROOT"/.tmp; T=$(mktemp -d "$ROOT"/.tmp/det-XXXX); trap 'rm -rf $T' EXIT
fail=0
for prop in ${PROPS:-C14 C19 C13 C11}; do
  n=$N; [ $prop = C19 ] && n=$((N/10))
  i=0
  for cfg in "plain chan probe 1" "plain chan probe 1" "plain pipe track 1" "plain pipe track 4" "plain pipe track 16" "plain pipe probe 4" "race pipe track 1" "race pipe track 4" "race pipe track 4" "race pipe track 16"; do
    set -- $cfg; i=$((i+1))
    bin=$B/simworker; extra=()
    if [ $1 = race ]; then bin=$B/simworker-race; export GORACE="halt_on_error=0 log_path=$T/race-$prop-$i"; extra=(-racelog $T/race-$prop-$i); else unset GORACE; fi
    ( $bin -prop $prop -seed 4242 -maxruns $n -gate $2 -lock $3 -procs $4 -hashes $T/$prop-$i.bin -dir $T -samples 0 -enumlimit 20 -plancap 60 "${extra[@]}" > $T/$prop-$i.json 2>$T/$prop-$i.err || echo "worker failed: $prop $cfg" ) &
  done
  wait
  res=$(python3 - $T/$prop-*.bin <<'PY'
import sys,struct
maps=[]
for f in sys.argv[1:]:
    b=open(f,'rb').read(); m={}
    for i in range(0,len(b)-16,17):
        idx,h=struct.unpack_from('<QQ',b,i); m[idx]=h
    maps.append(m)
allidx=set().union(*[set(m) for m in maps])
bad=0; compared=0
for i in allidx:
    hs={m[i] for m in maps if i in m}
    if sum(1 for m in maps if i in m)>=2: compared+=1
    if len(hs)>1: bad+=1
print(len(maps), len(allidx), compared, bad)
PY
)
  set -- $res
  viol=$(grep -l '"violation":{' $T/$prop-*.json | wc -l)
  echo "$prop: $1 processes, $2 run indices, $3 executed by at least two processes, $4 with differing hashes; processes reporting a violation: $viol"
  [ "$4" = 0 ] || fail=1
done
exit $fail
