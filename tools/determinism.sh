#!/bin/bash
ROOT=$(cd "$(dirname "$0")/.." && pwd)
# determinism.sh [runs-per-process]   prove that a run is a pure function of its seed:
# every property, same run indices, in many fresh processes across gates, lock modes, GOMAXPROCS values and both builds.
N=${1:-300}
cd "$ROOT" && ./check.sh --build-only || exit 2
B="$ROOT"/.bin/setup; mkdir -p "$ROOT"/.tmp; T=$(mktemp -d "$ROOT"/.tmp/det-XXXX); trap 'rm -rf $T' EXIT
fail=0
for prop in C14 C19 C13 C11; do
  n=$N; [ $prop = C19 ] && n=$((N/10))
  i=0
  for cfg in "plain chan probe 1" "plain chan probe 1" "plain pipe track 1" "plain pipe track 4" "plain pipe track 16" "plain pipe probe 4" "race pipe track 1" "race pipe track 4" "race pipe track 4" "race pipe track 16"; do
    set -- $cfg; i=$((i+1))
    bin=$B/simworker; extra=()
    if [ $1 = race ]; then bin=$B/simworker-race; export GORACE="halt_on_error=0 log_path=$T/race-$prop-$i"; extra=(-racelog $T/race-$prop-$i); else unset GORACE; fi
    ( $bin -prop $prop -seed 4242 -maxruns $n -gate $2 -lock $3 -procs $4 -hashes $T/$prop-$i.bin -dir $T -samples 0 -enumlimit 20 -plancap 60 "${extra[@]}" > $T/$prop-$i.json 2>$T/$prop-$i.err || echo "worker failed: $prop $cfg" ) &
  done
  wait
  ref=$T/$prop-1.bin
  for f in $T/$prop-*.bin; do
    if cmp -s $ref $f; then :; else echo "DIVERGENCE $prop: $(basename $f) differs from $(basename $ref)"; fail=1; fi
  done
  viol=$(grep -l '"violation":{' $T/$prop-*.json | wc -l)
  echo "$prop: $(ls $T/$prop-*.bin | wc -l) processes x $n run indices ($(($(stat -c %s $ref)/17)) records each), identical=$([ $fail = 0 ] && echo yes || echo NO), processes reporting a violation: $viol"
done
exit $fail
