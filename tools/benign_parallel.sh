#!/bin/bash
ROOT=$(cd "$(dirname "$0")/.." && pwd); cd "$ROOT"
# benign_parallel.sh [jobs] : every check against every benign variant, [jobs] variants at a time, at 60% of the
# quick budget (what tools/regress.sh does in its second step).  Everything must exit 0.
jobs=${1:-3}; mkdir -p .tmp
ls benign/*.patch | xargs -P "$jobs" -I{} bash -c 'for prop in ${PROPS:-C14 C19 C13 C11}; do VERIF_SCALE=0.6 SKIP_TESTS=1 tools/try_mutant.sh {} $prop 2>&1 | tail -1 | cut -c1-160; done' | tee .tmp/benign-parallel.log
n=$(grep -c "rc=0" .tmp/benign-parallel.log); t=$(( $(ls benign/*.patch | wc -l) * $(echo ${PROPS:-C14 C19 C13 C11} | wc -w) ))
echo "BENIGN: $n of $t runs exit 0"; [ "$n" = "$t" ]
