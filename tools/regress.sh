#!/bin/bash
# regress.sh : the full regression of the machinery itself.
#  1. every quick check on the unchanged tree, three seeds        -> must exit 0
#  2. every check on every benign variant                          -> must exit 0
#  3. every stored seeded change against its check                 -> reported (RESULTS.md)
#  4. determinism across processes, gates, GOMAXPROCS, builds      -> must agree
ROOT=$(cd "$(dirname "$0")/.." && pwd); cd "$ROOT"; fail=0
echo "== 1. unchanged tree"
for seed in 11 22 33; do for p in C11 C13 C14 C19; do
  r=$(VERIF_SEED=$seed VERIF_OUT=$ROOT/.tmp/regress-out ./check.sh $p quick 2>&1 | tail -1); echo "seed=$seed $r"
  case "$r" in OK*) ;; *) fail=1;; esac
done; done
echo "== 2. benign variants"
ls benign/*.patch | xargs -P 3 -I{} bash -c 'for prop in C14 C19 C13 C11; do VERIF_SCALE=0.6 tools/try_mutant.sh {} $prop 2>&1 | tail -1 | cut -c1-160; done' | tee $ROOT/.tmp/regress-benign.log
grep -v "rc=0" $ROOT/.tmp/regress-benign.log && fail=1
echo "== 3. seeded changes"
tools/run_seeded.sh quick 4 2>&1 | grep -E "^\| C" | awk -F'|' '{print $2,$5,$6}'
echo "== 4. determinism"
tools/determinism.sh 200 || fail=1
rm -rf $ROOT/.tmp/regress-out
echo "REGRESS $( [ $fail = 0 ] && echo PASS || echo FAIL )"
exit $fail
