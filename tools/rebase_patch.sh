#!/bin/bash
# rebase_patch.sh <base-commit> <patch> [out]  re-create a patch made against an older /repo commit on top of /repo HEAD
base=$1; patch=$(readlink -f "$2"); out=${3:-$patch}
wt=/tmp/rb-wt-$$
git -C /repo worktree add -q --detach "$wt" "$base" || exit 9
trap 'git -C /repo worktree remove --force "$wt" 2>/dev/null; rm -rf "$wt"' EXIT
cd "$wt" && git apply "$patch" && git -c user.name=x -c user.email=x@x commit -qam tmp && git checkout -q --detach "$(git -C /repo rev-parse HEAD)" 2>/dev/null
git -c user.name=x -c user.email=x@x cherry-pick -n HEAD@{1} >/dev/null 2>&1 || { echo "CONFLICT rebasing $patch"; git status --short; exit 8; }
git diff HEAD > "$out.new" && mv "$out.new" "$out" && echo "rebased $(basename $patch): $(wc -l < $out) lines"
