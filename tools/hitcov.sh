#!/bin/bash
ROOT=$(cd "$(dirname "$0")/.." && pwd)
# hitcov.sh [runs] [seed]   self-check of the workload: per form of generated rule line, how many lines of that form
# ever appear in an answer to the generated requests (fresh engines, no faults).  Forms at 0% that are meant to
# match something are dead weight: nothing can be seen through them.  (Comments, invalid lines, unsupported
# markers, bad regexps and exceptions are expected at 0%.)
export GOFLAGS=-mod=mod GOPROXY=off GOSUMDB=off GOTOOLCHAIN=local
cd "$ROOT" && ./check.sh --build-only >/dev/null && mkdir -p .tmp && .bin/setup/simworker -hitcov "${1:-3000}" -seed "${2:-7}" -dir .tmp
