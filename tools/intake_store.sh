#!/bin/bash
ROOT=$(cd "$(dirname "$0")/.." && pwd)
# intake_store.sh <agent-out-dir> <wave-tag>   like intake.sh but only verifies and stores (no check run):
# ids become <prop>-<wave-tag><k>; run the checks afterwards with ONLY="..." tools/run_seeded.sh
dir=$1; tag=$2; cd "$ROOT"
for d in "$dir"/out/*/; do
  d=${d%/}; k=$(basename "$d"); [ -f "$d/meta.json" ] || continue
  p=$(python3 -c "import json,sys;print(json.load(open(sys.argv[1])).get('property') or sys.argv[2])" "$d/meta.json" "${3:-}")
  v=$(tools/verify_seed.sh "$d" "$p" 2>&1 | tail -1)
  case "$v" in *": CONFIRMED") ;; *) echo "$tag$k [$p]: $v"; continue;; esac
  id=$p-$tag$k
  python3 tools/store_seed.py "$d" "$id" "$p" >/dev/null
  [ -f seeded/$id/demo_test.go ] && mv seeded/$id/demo_test.go seeded/$id/demo_test.go.txt
  echo "$id STORED"
done
